// C09, target "ingress" (axis audit): the way an HTLC REACHES the forwarding check.
//
// Target "main" judges CheckHtlcForward on arguments the harness supplies; target
// "switch" judges what the Switch does with the links' verdicts. Neither runs the
// code of the INCOMING link that turns a locked-in update_add_htlc plus its onion
// payload into the htlcPacket whose fields become the arguments of the check
// (channelLink.processRemoteAdds), and that code has two sites: the live one
// (forwarding package in state LockedIn) and the replay one (package reloaded from
// disk after a restart, state Processed, fwd-filter bit set). The inbound fee the
// check charges is not in the HTLC at all: it is read from the incoming link's own
// policy at either site.
//
// Pipeline under test (all real code, no goroutines, no timeouts):
//
//	two real lnwallet channels A<->B (node under test = A, B offers the HTLCs)
//	B.AddHTLC / A.ReceiveHTLC ... full commitment dance -> A.ReceiveRevocation
//	   => forwarding package (persisted in A's channel DB)
//	real, never started channelLink over A's channel: processRemoteAdds(pkg)   [live]
//	   => htlcPackets handed to cfg.ForwardPackets (captured)
//	(optionally) one sibling add is failed back and the failure committed
//	   => its bit is set in the package's ack filter
//	A's channel is restored from its DB, a NEW link object is built over it,
//	   LoadFwdPkgs + resolveFwdPkg(pkg)                                         [replay]
//	   => htlcPackets again
//	for every packet, exactly what Switch.handlePacketAdd does with it:
//	   outgoingLink.CheckHtlcForward(pkt.incomingAmount, pkt.amount, pkt.incomingTimeout,
//	   pkt.outgoingTimeout, pkt.inboundFee, height, ...) on a real outgoing link
//
// Enumerated (exhaustive cross products, no sampling; see ingBuild):
//
//	I1  per (incoming link's inbound fee x outgoing policy): threshold-1/threshold/
//	    threshold+1 of the fee, no-loss, min, max, delta, range, too-soon and too-far
//	    comparisons, in packages of up to 8 adds, judged on the live AND the replay path
//	I2  package shape: the fee-threshold probes at every position of a 3-add package x
//	    acked sibling (none / each other position) x provenance of the incoming link's
//	    policy (constructor argument / UpdateForwardingPolicy over a policy that
//	    differs in every field / UpdateForwardingPolicy on a link object that has
//	    already processed a package under that other policy)
//
// Oracle: the statement in math/big (c09IngJudge, a transcription of the forward rules
// of oracle_test.go), evaluated on the WIRE-LEVEL facts: amount and expiry of the
// update_add_htlc, amount and expiry of the onion payload, the inbound fee of the
// incoming link's configured policy, the outgoing link's configured policy. The
// verdict reached through the pipeline must agree with it on either path, and the
// packet's five fields must equal those facts.
package htlcswitch

import (
	"context"
	"crypto/sha256"
	"encoding/binary"
	"encoding/json"
	"fmt"
	"math/big"
	"os"
	"sort"
	"strings"
	"testing"
	"time"

	"github.com/btcsuite/btcd/btcec/v2"
	"github.com/btcsuite/btcd/btcutil/v2"
	sphinx "github.com/lightningnetwork/lightning-onion"
	"github.com/lightningnetwork/lnd/channeldb"
	"github.com/lightningnetwork/lnd/clock"
	"github.com/lightningnetwork/lnd/graph/db/models"
	"github.com/lightningnetwork/lnd/htlcswitch/hop"
	"github.com/lightningnetwork/lnd/lnwallet"
	"github.com/lightningnetwork/lnd/lnwire"
	"github.com/lightningnetwork/lnd/verifmc/evid"
)

const (
	ingHeight  = 800_000
	ingRd      = 13   // OutgoingCltvRejectDelta of the outgoing link
	ingMe      = 2016 // MaxOutgoingCltvExpiry of the outgoing link
	ingMaxIn   = 50_000_000_000
	ingNextHop = 0x0a0b0c000007 // scid the onion names as next hop
)

// ingHTLC is one HTLC of a package: the wire-level facts.
type ingHTLC struct {
	In   uint64 `json:"incoming_amt"`    // update_add_htlc.amount_msat
	InT  uint32 `json:"incoming_expiry"` // update_add_htlc.cltv_expiry
	Out  uint64 `json:"outgoing_amt"`    // onion payload amt_to_forward
	OutT uint32 `json:"outgoing_expiry"` // onion payload outgoing_cltv_value
}

// ingPkg is one enumerated package and the replay artefact.
type ingPkg struct {
	Kind string `json:"kind"` // always "ingress"
	Part string `json:"part"`
	// incoming link's policy: the inbound fee is what the statement charges, the
	// other fields are decoys
	IB   int32  `json:"inbound_base"`
	IR   int32  `json:"inbound_rate_ppm"`
	Prov string `json:"incoming_policy_provenance"` // ctor | update | update-after-use
	// outgoing link's policy
	Min   uint64 `json:"min_htlc_out"`
	Max   uint64 `json:"max_htlc"`
	Base  uint64 `json:"base_fee"`
	Rate  uint64 `json:"fee_rate_ppm"`
	Delta uint32 `json:"time_lock_delta"`

	HTLCs []ingHTLC `json:"htlcs"`
	Acked int       `json:"acked_sibling"` // index of the add failed back between live processing and restart, -1 = none
	Probe int       `json:"probe"`         // index of the add the package was built for (-1: all alike)
}

var ingDecoyPol = models.ForwardingPolicy{MinHTLCOut: 77_777, MaxHTLC: 88_888, BaseFee: 9_999, FeeRate: 54_321,
	TimeLockDelta: 77, InboundFee: models.InboundFee{Base: 4_444, Rate: 3_333}}

// ---------------------------------------------------------------------------
// oracle (transcription of the forward rules of oracle_test.go)

var ingRuleNames = []string{"no_loss", "fee", "min_htlc", "max_htlc", "expiry_too_soon", "expiry_too_far", "bandwidth", "cltv_delta", "cltv_range"}

type ingVerdict struct {
	holds  [9]bool
	margin [9]*big.Int
	accept bool
	req    *big.Int
}

func ingU(v uint64) *big.Int { return new(big.Int).SetUint64(v) }

func c09IngRequired(p *ingPkg, out uint64) *big.Int {
	mil := big.NewInt(1_000_000)
	outFee := new(big.Int).Mul(ingU(out), ingU(p.Rate))
	outFee.Div(outFee, mil)
	outFee.Add(outFee, ingU(p.Base))
	ir := int64(p.IR)
	if ir > 10_000_000 {
		ir = 10_000_000
	}
	if ir < -10_000_000 {
		ir = -10_000_000
	}
	inFee := new(big.Int).Mul(big.NewInt(ir), new(big.Int).Add(ingU(out), outFee))
	inFee.Quo(inFee, mil) // truncation toward zero
	inFee.Add(inFee, big.NewInt(int64(p.IB)))
	return outFee.Add(outFee, inFee)
}

func c09IngJudge(p *ingPkg, h ingHTLC, bandwidth uint64) *ingVerdict {
	v := &ingVerdict{accept: true}
	set := func(r int, m *big.Int) { v.margin[r], v.holds[r] = m, m.Sign() >= 0 }
	in, out := ingU(h.In), ingU(h.Out)
	diff := new(big.Int).Sub(in, out)
	set(0, new(big.Int).Set(diff))
	v.req = c09IngRequired(p, h.Out)
	set(1, new(big.Int).Sub(diff, v.req))
	set(2, new(big.Int).Sub(out, ingU(p.Min)))
	if p.Max == 0 {
		v.holds[3] = true
	} else {
		set(3, new(big.Int).Sub(ingU(p.Max), out))
	}
	outT, hb := ingU(uint64(h.OutT)), ingU(ingHeight)
	m := new(big.Int).Sub(outT, hb)
	m.Sub(m, big.NewInt(ingRd+1))
	set(4, m)
	m = new(big.Int).Add(hb, big.NewInt(ingMe))
	set(5, m.Sub(m, outT))
	set(6, new(big.Int).Sub(ingU(bandwidth), out))
	gap := new(big.Int).Sub(ingU(uint64(h.InT)), outT)
	set(7, new(big.Int).Sub(gap, ingU(uint64(p.Delta))))
	set(8, new(big.Int).Sub(big.NewInt(ingMe), gap))
	for r := range v.holds {
		v.accept = v.accept && v.holds[r]
	}
	return v
}

func (v *ingVerdict) class(r int) string {
	m := v.margin[r]
	if m == nil {
		return "n/a"
	}
	switch {
	case m.Cmp(big.NewInt(-2)) <= 0:
		return "-2"
	case m.Cmp(big.NewInt(2)) >= 0:
		return "+2"
	}
	return fmt.Sprintf("%+d", m.Int64())
}

func (v *ingVerdict) violatedSig() string {
	var l []string
	for r, ok := range v.holds {
		if !ok {
			l = append(l, ingRuleNames[r]+"("+v.class(r)+")")
		}
	}
	if l == nil {
		return "none"
	}
	return strings.Join(l, "+")
}

func (v *ingVerdict) near() bool {
	for r := range v.holds {
		if m := v.margin[r]; m != nil && m.IsInt64() && m.Int64() >= -1 && m.Int64() <= 1 {
			return true
		}
	}
	return false
}

var ingFailureRules = map[string][]int{
	"FeeInsufficient":         {0, 1},
	"AmountBelowMinimum":      {2},
	"TemporaryChannelFailure": {3, 6},
	"ExpiryTooSoon":           {4},
	"ExpiryTooFar":            {5, 8},
	"IncorrectCltvExpiry":     {7},
}

// ---------------------------------------------------------------------------
// world

type ingWorld struct {
	t       *testing.T
	alice   *lnwallet.LightningChannel // node under test, incoming channel
	bob     *lnwallet.LightningChannel // remote peer offering the HTLCs
	restore func() (*lnwallet.LightningChannel, error)
	out     ChannelLink // real outgoing link (never started) on a second channel
	outBW   uint64
	round   uint64
	peer    *mockPeer
	log     func(string, ...any)

	captured []*htlcPacket
	failed   []string
}

func newIngWorld(t *testing.T) *ingWorld {
	w := &ingWorld{t: t, log: func(string, ...any) {}}
	a, b, err := createTestChannel(t, alicePrivKey, bobPrivKey, btcutil.SatoshiPerBitcoin*3, btcutil.SatoshiPerBitcoin*3,
		btcutil.SatoshiPerBitcoin*3/100, btcutil.SatoshiPerBitcoin*3/100, lnwire.NewShortChanIDFromInt(0x010203000001))
	if err != nil {
		t.Fatalf("createTestChannel: %v", err)
	}
	w.alice, w.bob, w.restore = a.channel, b.channel, a.restore
	o, _, err := createTestChannel(t, alicePrivKey, bobPrivKey, btcutil.SatoshiPerBitcoin*3, btcutil.SatoshiPerBitcoin*3,
		btcutil.SatoshiPerBitcoin*3/100, btcutil.SatoshiPerBitcoin*3/100, lnwire.NewShortChanIDFromInt(ingNextHop))
	if err != nil {
		t.Fatalf("createTestChannel(out): %v", err)
	}
	w.peer = &mockPeer{sentMsgs: make(chan lnwire.Message, 4096), quit: make(chan struct{})}
	w.out = NewChannelLink(ChannelLinkConfig{
		OutgoingCltvRejectDelta: ingRd,
		MaxOutgoingCltvExpiry:   ingMe,
		FailAliasUpdate:         func(lnwire.ShortChannelID, bool) *lnwire.ChannelUpdate1 { return &lnwire.ChannelUpdate1{} },
		FetchLastChannelUpdate:  mockGetChanUpdateMessage,
		DisallowQuiescence:      true,
	}, o.channel)
	w.outBW = uint64(w.out.Bandwidth())
	return w
}

// newInLink builds a fresh, never started incoming link over ch.
func (w *ingWorld) inPol(p *ingPkg) models.ForwardingPolicy {
	pol := ingDecoyPol
	pol.InboundFee = models.InboundFee{Base: p.IB, Rate: p.IR}
	return pol
}

// ingOtherPol differs from every enumerated incoming policy in every field.
func ingOtherPol() models.ForwardingPolicy {
	d := ingDecoyPol
	d.MinHTLCOut, d.BaseFee = 11, 22
	d.MaxHTLC, d.FeeRate, d.TimeLockDelta = 33, 44, 55
	return d
}

func (w *ingWorld) newInLink(ch *lnwallet.LightningChannel, p *ingPkg, prov string) *channelLink {
	pol := w.inPol(p)
	cfg := ChannelLinkConfig{
		Peer:               w.peer,
		BestHeight:         func() uint32 { return ingHeight },
		DecodeHopIterators: newMockIteratorDecoder().DecodeHopIterators,
		ExtractErrorEncrypter: func(*btcec.PublicKey) (hop.ErrorEncrypter, lnwire.FailCode) {
			return NewMockObfuscator(), lnwire.CodeNone
		},
		ForwardPackets: func(_ <-chan struct{}, _ bool, pkts ...*htlcPacket) error {
			for _, pk := range pkts {
				if _, ok := pk.htlc.(*lnwire.UpdateAddHTLC); ok {
					w.captured = append(w.captured, pk)
				}
			}
			return nil
		},
		FetchLastChannelUpdate: mockGetChanUpdateMessage,
		FailAliasUpdate:        func(lnwire.ShortChannelID, bool) *lnwire.ChannelUpdate1 { return nil },
		OnChannelFailure: func(_ lnwire.ChannelID, _ lnwire.ShortChannelID, e LinkFailureError) {
			w.failed = append(w.failed, e.Error())
		},
		HtlcNotifier:               &mockHTLCNotifier{},
		ShouldFwdExpAccountability: func() bool { return false },
		DisallowQuiescence:         true,
		MaxOutgoingCltvExpiry:      ingMe,
	}
	var l ChannelLink
	switch prov {
	case "ctor":
		cfg.FwrdingPolicy = pol
		l = NewChannelLink(cfg, ch)
	case "update":
		cfg.FwrdingPolicy = ingOtherPol()
		l = NewChannelLink(cfg, ch)
		l.UpdateForwardingPolicy(pol)
	case "other": // the policy the link has before the update of "update-after-use"
		cfg.FwrdingPolicy = ingOtherPol()
		l = NewChannelLink(cfg, ch)
	default:
		panic("unknown provenance " + prov)
	}
	l.AttachMailBox(newMemoryMailBox(&mailBoxConfig{
		shortChanID:    ch.ShortChanID(),
		forwardPackets: func(<-chan struct{}, ...*htlcPacket) error { return nil },
		clock:          clock.NewDefaultClock(),
		expiry:         time.Hour,
	}))
	return l.(*channelLink)
}

func ingOnion(h ingHTLC) [lnwire.OnionPacketSize]byte {
	var next, exit [8]byte
	binary.BigEndian.PutUint64(next[:], ingNextHop)
	blob, err := generateRoute(
		hop.NewLegacyPayload(&sphinx.HopData{NextAddress: next, ForwardAmount: h.Out, OutgoingCltv: h.OutT}),
		hop.NewLegacyPayload(&sphinx.HopData{NextAddress: exit, ForwardAmount: h.Out, OutgoingCltv: h.OutT}),
	)
	if err != nil {
		panic(err)
	}
	return blob
}

// dance: `first` signs, the other side answers; returns what the second
// ReceiveRevocation of `second`... see callers. It is lnwallet.ForceStateTransition
// with the last forwarding package kept.
func ingDance(first, second *lnwallet.LightningChannel) (*channeldb.FwdPkg, error) {
	ctx := context.Background()
	s1, err := first.SignNextCommitment(ctx)
	if err != nil {
		return nil, fmt.Errorf("sign(1): %w", err)
	}
	if err := second.ReceiveNewCommitment(s1.CommitSigs); err != nil {
		return nil, fmt.Errorf("receive(1): %w", err)
	}
	r2, _, _, err := second.RevokeCurrentCommitment()
	if err != nil {
		return nil, fmt.Errorf("revoke(2): %w", err)
	}
	s2, err := second.SignNextCommitment(ctx)
	if err != nil {
		return nil, fmt.Errorf("sign(2): %w", err)
	}
	if _, _, err := first.ReceiveRevocation(r2); err != nil {
		return nil, fmt.Errorf("receive-rev(1): %w", err)
	}
	if err := first.ReceiveNewCommitment(s2.CommitSigs); err != nil {
		return nil, fmt.Errorf("receive(2): %w", err)
	}
	r1, _, _, err := first.RevokeCurrentCommitment()
	if err != nil {
		return nil, fmt.Errorf("revoke(1): %w", err)
	}
	pkg, _, err := second.ReceiveRevocation(r1)
	if err != nil {
		return nil, fmt.Errorf("receive-rev(2): %w", err)
	}
	return pkg, nil
}

type ingObs struct {
	Path    string `json:"path"`
	Index   int    `json:"index"`
	Offered bool   `json:"offered_to_switch"`
	In      uint64 `json:"pkt_incoming_amount"`
	Out     uint64 `json:"pkt_amount"`
	InT     uint32 `json:"pkt_incoming_timeout"`
	OutT    uint32 `json:"pkt_outgoing_timeout"`
	IB      int32  `json:"pkt_inbound_base"`
	IR      int32  `json:"pkt_inbound_rate"`
	Code    string `json:"verdict"`
}

// runPkg pushes one package through the pipeline. judge is called once per
// (add, path) with the observation.
func (w *ingWorld) runPkg(p *ingPkg, judge func(idx int, o ingObs)) (err error) {
	defer func() {
		if r := recover(); r != nil {
			err = fmt.Errorf("panic: %v", r)
		}
	}()
	w.round++
	w.failed = nil
	w.out.UpdateForwardingPolicy(models.ForwardingPolicy{
		MinHTLCOut: lnwire.MilliSatoshi(p.Min), MaxHTLC: lnwire.MilliSatoshi(p.Max), BaseFee: lnwire.MilliSatoshi(p.Base),
		FeeRate: lnwire.MilliSatoshi(p.Rate), TimeLockDelta: p.Delta,
		InboundFee: models.InboundFee{Base: -7_000, Rate: 9_000}, // the outgoing link's own inbound fee: a decoy
	})

	// 0. the incoming link object; for "update-after-use" it first processes a
	// one-add package under another policy, then receives the policy update
	var lIn *channelLink
	restartProv := p.Prov
	if p.Prov == "update-after-use" {
		restartProv = "ctor" // a restarted node builds the link with the policy it has stored
		lIn = w.newInLink(w.alice, p, "other")
		var rb [16]byte
		binary.BigEndian.PutUint64(rb[:8], w.round)
		rb[15] = 0xff
		wh := ingHTLC{In: 1_000_000, InT: ingHeight + 150, Out: 900_000, OutT: ingHeight + 100}
		add := &lnwire.UpdateAddHTLC{Amount: lnwire.MilliSatoshi(wh.In), Expiry: wh.InT, PaymentHash: sha256.Sum256(rb[:]), OnionBlob: ingOnion(wh)}
		id, err := w.bob.AddHTLC(add, nil)
		if err != nil {
			return fmt.Errorf("world: warm-up B.AddHTLC: %w", err)
		}
		add.ID = id
		if _, err := w.alice.ReceiveHTLC(add); err != nil {
			return fmt.Errorf("world: warm-up A.ReceiveHTLC: %w", err)
		}
		pkg0, err := ingDance(w.bob, w.alice)
		if err != nil {
			return fmt.Errorf("world: warm-up lock-in: %w", err)
		}
		w.captured = nil
		lIn.processRemoteAdds(pkg0)
		w.log("warm-up package processed by the same link object under another policy (%d adds handed on)", len(w.captured))
		w.captured = nil
		ref := pkg0.SourceRef(0)
		if err := w.alice.FailHTLC(id, []byte("c09"), &ref, nil, nil); err != nil {
			return fmt.Errorf("world: warm-up A.FailHTLC: %w", err)
		}
		if err := w.bob.ReceiveFailHTLC(id, []byte("c09")); err != nil {
			return fmt.Errorf("world: warm-up B.ReceiveFailHTLC: %w", err)
		}
		if _, err := ingDance(w.alice, w.bob); err != nil {
			return fmt.Errorf("world: warm-up cleanup: %w", err)
		}
		lIn.UpdateForwardingPolicy(w.inPol(p))
		w.log("UpdateForwardingPolicy: inbound fee now {%d,%d}", p.IB, p.IR)
	} else {
		lIn = w.newInLink(w.alice, p, p.Prov)
	}

	// 1. B offers the HTLCs, full dance, A locks them in
	ids := make([]uint64, len(p.HTLCs))
	byID := map[uint64]int{}
	for i, h := range p.HTLCs {
		var rb [16]byte
		binary.BigEndian.PutUint64(rb[:8], w.round)
		binary.BigEndian.PutUint64(rb[8:], uint64(i))
		add := &lnwire.UpdateAddHTLC{Amount: lnwire.MilliSatoshi(h.In), Expiry: h.InT, PaymentHash: sha256.Sum256(rb[:]), OnionBlob: ingOnion(h)}
		id, err := w.bob.AddHTLC(add, nil)
		if err != nil {
			return fmt.Errorf("world: B.AddHTLC(%d msat): %w", h.In, err)
		}
		add.ID = id
		if _, err := w.alice.ReceiveHTLC(add); err != nil {
			return fmt.Errorf("world: A.ReceiveHTLC: %w", err)
		}
		ids[i], byID[id] = id, i
	}
	pkg, err := ingDance(w.bob, w.alice)
	if err != nil {
		return fmt.Errorf("world: lock-in: %w", err)
	}
	if pkg == nil || len(pkg.Adds) != len(p.HTLCs) {
		return fmt.Errorf("world: forwarding package has %d adds, wanted %d", len(pkg.Adds), len(p.HTLCs))
	}
	w.log("package at height %d locked in with %d adds (state %v)", pkg.Height, len(pkg.Adds), pkg.State)

	observe := func(path string, skip int) {
		seen := map[int]bool{}
		for _, pk := range w.captured {
			idx, ok := byID[pk.incomingHTLCID]
			if !ok {
				continue // an HTLC of an earlier package (never happens: they are all failed back)
			}
			if seen[idx] {
				judge(idx, ingObs{Path: path, Index: idx, Code: "offered-twice"})
				continue
			}
			seen[idx] = true
			add := pk.htlc.(*lnwire.UpdateAddHTLC)
			o := ingObs{Path: path, Index: idx, Offered: true, In: uint64(pk.incomingAmount), Out: uint64(pk.amount),
				InT: pk.incomingTimeout, OutT: pk.outgoingTimeout, IB: pk.inboundFee.Base, IR: pk.inboundFee.Rate}
			// what Switch.handlePacketAdd does with the packet
			le := w.out.CheckHtlcForward(add.PaymentHash, pk.incomingAmount, pk.amount, pk.incomingTimeout,
				pk.outgoingTimeout, pk.inboundFee, ingHeight, pk.outgoingChanID, add.CustomRecords)
			switch {
			case le == nil:
				o.Code = "accept"
			case le.WireMessage() == nil:
				o.Code = "nil-wire-message"
			default:
				o.Code = le.WireMessage().Code().String()
			}
			judge(idx, o)
		}
		for i := range p.HTLCs {
			if !seen[i] && i != skip {
				judge(i, ingObs{Path: path, Index: i})
			}
		}
		w.captured = nil
	}

	// 2. live
	w.captured = nil
	lIn.processRemoteAdds(pkg)
	w.log("live: processRemoteAdds handed %d adds to the switch", len(w.captured))
	observe("live", -1)

	// 3. one sibling is failed back and the failure committed
	if p.Acked >= 0 {
		ref := pkg.SourceRef(uint16(p.Acked))
		if err := w.alice.FailHTLC(ids[p.Acked], []byte("c09"), &ref, nil, nil); err != nil {
			return fmt.Errorf("world: A.FailHTLC: %w", err)
		}
		if err := w.bob.ReceiveFailHTLC(ids[p.Acked], []byte("c09")); err != nil {
			return fmt.Errorf("world: B.ReceiveFailHTLC: %w", err)
		}
		if _, err := ingDance(w.alice, w.bob); err != nil {
			return fmt.Errorf("world: commit the failure: %w", err)
		}
		w.log("add %d failed back and the failure committed", p.Acked)
	}

	// 4. restart: channel restored from its DB, new link object, packages reloaded
	a2, err := w.restore()
	if err != nil {
		return fmt.Errorf("world: restore: %w", err)
	}
	w.alice = a2
	lIn2 := w.newInLink(a2, p, restartProv)
	pkgs, err := a2.LoadFwdPkgs()
	if err != nil {
		return fmt.Errorf("world: LoadFwdPkgs: %w", err)
	}
	for _, fp := range pkgs {
		w.log("restart: package at height %d state %v ack filter %v fwd filter %v", fp.Height, fp.State, fp.AckFilter, fp.FwdFilter)
		if err := lIn2.resolveFwdPkg(fp); err != nil {
			return fmt.Errorf("world: resolveFwdPkg: %w", err)
		}
	}
	w.log("replay: %d adds handed to the switch", len(w.captured))
	observe("replay", p.Acked)

	// 5. clean up: every remaining add is failed back and the failure committed
	for i := range p.HTLCs {
		if i == p.Acked {
			continue
		}
		ref := pkg.SourceRef(uint16(i))
		if err := a2.FailHTLC(ids[i], []byte("c09"), &ref, nil, nil); err != nil {
			return fmt.Errorf("world: cleanup A.FailHTLC: %w", err)
		}
		if err := w.bob.ReceiveFailHTLC(ids[i], []byte("c09")); err != nil {
			return fmt.Errorf("world: cleanup B.ReceiveFailHTLC: %w", err)
		}
	}
	if _, err := ingDance(a2, w.bob); err != nil {
		return fmt.Errorf("world: cleanup dance: %w", err)
	}
	if len(w.failed) > 0 {
		return fmt.Errorf("the incoming link failed: %v", w.failed)
	}
	return nil
}

// ---------------------------------------------------------------------------
// enumeration

type ingPol struct {
	name                 string
	min, max, base, rate uint64
	delta                uint32
}

type ingFee struct{ b, r int32 }

func ingAround(v *big.Int) []*big.Int {
	return []*big.Int{new(big.Int).Sub(v, big.NewInt(1)), new(big.Int).Set(v), new(big.Int).Add(v, big.NewInt(1))}
}

func ingSet(lo, hi uint64, ls ...[]*big.Int) []uint64 {
	seen := map[uint64]bool{}
	var out []uint64
	for _, l := range ls {
		for _, b := range l {
			if !b.IsUint64() {
				continue
			}
			x := b.Uint64()
			if x < lo || x > hi || seen[x] {
				continue
			}
			seen[x] = true
			out = append(out, x)
		}
	}
	sort.Slice(out, func(i, j int) bool { return out[i] < out[j] })
	return out
}

// ingBuild returns the packages of the tier and the number of lattice points
// dropped because the incoming amount cannot be carried by the channel.
func ingBuild(thorough bool) (pkgs []*ingPkg, dropped int) {
	pols := []ingPol{
		{"nz", 1000, 5_000_000, 1000, 2500, 40},
		{"zero", 0, 0, 0, 0, 0},
	}
	fees := []ingFee{{0, 0}, {1000, 100_000}, {-500, -1000}, {100, 5000}}
	provs := []string{"ctor", "update", "update-after-use"}
	if thorough {
		pols = append(pols, ingPol{"b", 2000, 4_000_000, 10, 100, 10}, ingPol{"c", 3, 0, 5000, 0, 144})
		fees = append(fees, ingFee{-1, 1}, ingFee{1, -1}, ingFee{0, 1_000_000}, ingFee{-1_000_000, 0}, ingFee{2147483647, 1}, ingFee{-2147483648, -1})
	}
	const outT0 = ingHeight + 100
	for _, pol := range pols {
		for fi, fee := range fees {
			base := ingPkg{Kind: "ingress", IB: fee.b, IR: fee.r, Min: pol.min, Max: pol.max, Base: pol.base, Rate: pol.rate, Delta: pol.delta,
				Acked: -1, Probe: -1, Prov: provs[fi%len(provs)]}
			// ---- I1: boundary lattice ----------------------------------------
			var hs []ingHTLC
			outs := ingSet(0, 1<<62, ingAround(ingU(pol.min)), ingAround(ingU(pol.max)), []*big.Int{ingU(1_000_000), ingU(1)})
			for _, out := range outs {
				req := c09IngRequired(&base, out)
				ins := ingSet(0, 1<<62, ingAround(new(big.Int).Add(ingU(out), req)), ingAround(ingU(out)))
				for _, in := range ins {
					if in < 1 || in > ingMaxIn {
						dropped++
						continue
					}
					hs = append(hs, ingHTLC{In: in, InT: outT0 + pol.delta, Out: out, OutT: outT0})
				}
			}
			// expiry side at an amount that pays the fee exactly
			out := uint64(1_000_000)
			exact := new(big.Int).Add(ingU(out), c09IngRequired(&base, out))
			if exact.IsUint64() && exact.Uint64() >= 1 && exact.Uint64() <= ingMaxIn {
				in := exact.Uint64()
				for _, d := range []int64{-1, 0, 1} {
					hs = append(hs,
						ingHTLC{In: in, InT: uint32(int64(outT0) + int64(pol.delta) + d), Out: out, OutT: outT0},                                            // delta
						ingHTLC{In: in, InT: uint32(int64(outT0) + ingMe + d), Out: out, OutT: outT0},                                                       // range
						ingHTLC{In: in, InT: uint32(int64(ingHeight+ingRd+1) + d + int64(pol.delta)), Out: out, OutT: uint32(int64(ingHeight+ingRd+1) + d)}, // too soon
						ingHTLC{In: in, InT: uint32(int64(ingHeight+ingMe) + d + int64(pol.delta)), Out: out, OutT: uint32(int64(ingHeight+ingMe) + d)},     // too far
					)
				}
			} else {
				dropped++
			}
			for i := 0; i < len(hs); i += 8 {
				j := i + 8
				if j > len(hs) {
					j = len(hs)
				}
				p := base
				p.Part = "I1-boundary-lattice"
				p.HTLCs = append([]ingHTLC(nil), hs[i:j]...)
				pkgs = append(pkgs, &p)
			}

			// ---- I2: package shape -------------------------------------------
			if !exact.IsUint64() || exact.Uint64() < 2 || exact.Uint64() > ingMaxIn {
				continue
			}
			if !thorough && (fi == 0 || fi == 3) {
				// quick tier: the package shapes are crossed with one positive and
				// one negative inbound fee (I1 runs every fee on both paths)
				continue
			}
			for _, prov := range provs {
				for _, d := range []int64{-1, 0, 1} {
					probe := ingHTLC{In: uint64(int64(exact.Uint64()) + d), InT: outT0 + pol.delta, Out: out, OutT: outT0}
					for pos := 0; pos < 3; pos++ {
						for acked := -1; acked < 3; acked++ {
							if acked == pos {
								continue
							}
							p := base
							p.Part, p.Prov, p.Probe, p.Acked = "I2-package-shape", prov, pos, acked
							for k := 0; k < 3; k++ {
								if k == pos {
									p.HTLCs = append(p.HTLCs, probe)
									continue
								}
								// siblings: ordinary forwards with amounts and expiries of their own
								so := 2_000_000 + uint64(k)*333_333
								sreq := c09IngRequired(&base, so)
								sin := new(big.Int).Add(ingU(so), sreq)
								if !sin.IsUint64() || sin.Uint64() < 1 || sin.Uint64() > ingMaxIn {
									sin = ingU(so)
								}
								p.HTLCs = append(p.HTLCs, ingHTLC{In: sin.Uint64(), InT: outT0 + 7 + uint32(k) + pol.delta, Out: so, OutT: outT0 + 7 + uint32(k)})
							}
							pkgs = append(pkgs, &p)
						}
					}
				}
			}
		}
	}
	return pkgs, dropped
}

// ---------------------------------------------------------------------------

type ingStats struct {
	evals    int
	byPart   map[string]int
	byPath   map[string]int
	outcomes map[string]int
	classes  map[string]bool
	nontriv  map[string]bool
	shapes   map[string]int
}

func ingJudgeObs(p *ingPkg, idx int, o ingObs, bw uint64, st *ingStats, report func(sig, what string)) {
	h := p.HTLCs[idx]
	v := c09IngJudge(p, h, bw)
	dims := "|path=" + o.Path + "|incoming-policy=" + p.Prov
	if p.Acked >= 0 {
		dims += "|acked-sibling"
	}
	if st != nil {
		st.evals++
		st.byPart[p.Part]++
		st.byPath[o.Path]++
		st.outcomes[o.Path+":"+o.Code]++
		cl := o.Path + "/" + o.Code + "/"
		for r := range v.holds {
			cl += v.class(r) + ","
		}
		if !st.classes[cl] {
			st.classes[cl] = true
			if v.near() {
				st.nontriv[cl] = true
			}
		}
		if p.Part == "I2-package-shape" && idx == p.Probe {
			st.shapes[fmt.Sprintf("%s:pos=%d/acked=%d/%s", o.Path, p.Probe, p.Acked, p.Prov)]++
		}
	}
	desc := fmt.Sprintf("add %d of %d (in=%d msat expiring %d, onion: forward %d msat expiring %d), incoming link inbound fee {%d,%d}, outgoing policy {min %d max %d base %d rate %d delta %d}, path %s",
		idx, len(p.HTLCs), h.In, h.InT, h.Out, h.OutT, p.IB, p.IR, p.Min, p.Max, p.Base, p.Rate, p.Delta, o.Path)
	if !o.Offered {
		what := "was never handed to the switch"
		if o.Code == "offered-twice" {
			what = "was handed to the switch twice in one pass"
		}
		report("hard:ingress:add-not-offered-once"+dims, desc+": "+what)
		return
	}
	// the packet's fields are the wire-level facts
	for _, f := range []struct {
		name      string
		got, want int64
	}{
		{"incomingAmount", int64(o.In), int64(h.In)}, {"amount", int64(o.Out), int64(h.Out)},
		{"incomingTimeout", int64(o.InT), int64(h.InT)}, {"outgoingTimeout", int64(o.OutT), int64(h.OutT)},
		{"inboundFee.Base", int64(o.IB), int64(p.IB)}, {"inboundFee.Rate", int64(o.IR), int64(p.IR)},
	} {
		if f.got != f.want {
			report("ingress:packet-field-differs:"+f.name+dims,
				fmt.Sprintf("%s: the packet handed to the switch carries %s=%d, the HTLC / the incoming link's policy say %d", desc, f.name, f.got, f.want))
		}
	}
	// the verdict reached through the pipeline agrees with the statement
	switch {
	case o.Code == "accept" && !v.holds[0]:
		report("hard:accepted-money-loss:"+v.violatedSig()+dims, desc+": accepted although the outgoing amount exceeds the incoming amount")
	case o.Code == "accept" && !v.accept:
		report("accept-mismatch:forward:code=accept:violated="+v.violatedSig()+dims,
			fmt.Sprintf("%s: accepted although the statement's rules %s are violated (required fee %s msat)", desc, v.violatedSig(), v.req))
	case o.Code == "accept":
	default:
		rules, ok := ingFailureRules[o.Code]
		if !ok {
			report("hard:unexpected-failure:forward:"+o.Code+dims, desc+": rejected with "+o.Code+", which names none of the statement's rules")
			return
		}
		if v.accept {
			report("reject-mismatch:forward:code="+o.Code+dims, fmt.Sprintf("%s: rejected with %s although every rule of the statement holds (required fee %s msat)", desc, o.Code, v.req))
			return
		}
		for _, r := range rules {
			if !v.holds[r] {
				return
			}
		}
		report("wrong-failure:forward:code="+o.Code+":violated="+v.violatedSig()+dims, desc+": rejected with "+o.Code+" but that rule is not violated")
	}
}

func TestC09Ingress(t *testing.T) {
	run := evid.Start("C09", "exploration")
	if rp := os.Getenv("VERIF_REPLAY"); rp != "" {
		b, err := os.ReadFile(rp)
		if err != nil {
			t.Fatalf("replay: %v", err)
		}
		var f struct {
			Signature string `json:"signature"`
			Replay    ingPkg `json:"replay"`
		}
		_ = json.Unmarshal(b, &f)
		if f.Replay.Kind != "ingress" {
			fmt.Printf("INFO target ingress: the replay artefact belongs to another target, nothing to do here\n")
			os.Exit(run.Finish(map[string]any{"evaluations": 1, "distinct_nontrivial": 2, "rule": "replay (other target)", "samples": []any{rp}}))
		}
		w := newIngWorld(t)
		w.log = func(fm string, a ...any) { fmt.Printf("INFO "+fm+"\n", a...) }
		fmt.Printf("INFO replaying %s (recorded signature %s)\n", rp, f.Signature)
		fmt.Printf("INFO package: %s\n", mustJSONIng(f.Replay))
		for i := 0; i < 3; i++ {
			fmt.Printf("INFO --- run %d/3 ---\n", i+1)
			p := f.Replay
			err := w.runPkg(&p, func(idx int, o ingObs) {
				fmt.Printf("INFO observed %s\n", mustJSONIng(o))
				v := c09IngJudge(&p, p.HTLCs[idx], w.outBW)
				fmt.Printf("INFO exact arithmetic for add %d: accept=%v violated=%s required_fee=%s\n", idx, v.accept, v.violatedSig(), v.req)
				clean := true
				ingJudgeObs(&p, idx, o, w.outBW, nil, func(sig, what string) {
					clean = false
					fmt.Printf("INFO verdict: %s\n", what)
					run.Violation(sig, what, p)
				})
				if clean {
					fmt.Printf("INFO verdict: agrees with the statement\n")
				}
			})
			if err != nil {
				fmt.Printf("INFO pipeline error: %v\n", err)
				run.Violation("hard:ingress:pipeline-error", err.Error(), p)
			}
		}
		os.Exit(run.Finish(map[string]any{"evaluations": 3, "distinct_nontrivial": 2, "rule": "replay of one ingress package, three times", "samples": []any{f.Replay}}))
	}

	pkgs, dropped := ingBuild(run.Thorough())
	st := &ingStats{byPart: map[string]int{}, byPath: map[string]int{}, outcomes: map[string]int{}, classes: map[string]bool{},
		nontriv: map[string]bool{}, shapes: map[string]int{}}
	samples := evid.NewSamples(4)
	w := newIngWorld(t)
	budget := 120 * time.Second
	if run.Thorough() {
		budget = 10 * time.Minute
	}
	deadline := time.Now().Add(budget)
	done, nondet := 0, 0
	for _, p := range pkgs {
		if time.Now().After(deadline) {
			break
		}
		done++
		type rep struct{ sig, what string }
		var reps []rep
		sampled := false
		err := w.runPkg(p, func(idx int, o ingObs) {
			ingJudgeObs(p, idx, o, w.outBW, st, func(sig, what string) { reps = append(reps, rep{sig, what}) })
			if !sampled && (done%97 == 1) {
				sampled = true
				samples.Add(map[string]any{"package": p, "observation": o})
			}
		})
		if err != nil {
			if strings.HasPrefix(err.Error(), "world:") {
				// the harness could not construct the situation: a broken check, not a verdict
				t.Fatalf("ingress %s: %v", mustJSONIng(p), err)
			}
			reps = append(reps, rep{"hard:ingress:pipeline-error", err.Error() + "; package=" + mustJSONIng(p)})
		}
		if len(reps) == 0 {
			continue
		}
		// determinism gate: the same package again must be judged the same way
		var again []rep
		err2 := w.runPkg(p, func(idx int, o ingObs) {
			ingJudgeObs(p, idx, o, w.outBW, nil, func(sig, what string) { again = append(again, rep{sig, what}) })
		})
		if err2 != nil && strings.HasPrefix(err2.Error(), "world:") {
			t.Fatalf("ingress %s (second run): %v", mustJSONIng(p), err2)
		}
		if len(again) == 0 && err2 == nil {
			nondet++
			continue
		}
		for _, r := range reps {
			run.Violation(r.sig, r.what, p)
		}
	}
	cov := map[string]any{
		"evaluations":         st.evals,
		"distinct_nontrivial": len(st.nontriv),
		"rule": "target ingress: an evaluation = one locked-in update_add_htlc taken by the real incoming link's processRemoteAdds (live, or replayed from the channel DB by a new link object) to an htlcPacket and on to the real outgoing link's CheckHtlcForward, compared with the statement in math/big on the wire-level facts; " +
			"distinct_nontrivial = distinct (path, outcome, margin class of each of the 9 rules) with at least one rule at threshold-1/threshold/threshold+1",
		"samples":                            samples.List(),
		"ingress_packages":                   done,
		"ingress_evaluations_by_part":        st.byPart,
		"ingress_evaluations_by_path":        st.byPath,
		"ingress_outcome_classes":            st.outcomes,
		"ingress_classes_total":              len(st.classes),
		"ingress_probe_cells":                st.shapes,
		"ingress_lattice_points_dropped":     dropped,
		"ingress_outgoing_bandwidth_msat":    w.outBW,
		"ingress_lattice_points_dropped_why": "incoming amount 0 or above what the 6 BTC test channel carries (an update_add_htlc of that amount cannot be locked in)",
	}
	if done < len(pkgs) {
		cov["exhaustive"] = false
		cov["caps_hit"] = []string{fmt.Sprintf("ingress time budget %s: %d of %d packages not run", budget, len(pkgs)-done, len(pkgs))}
	}
	if nondet > 0 {
		cov["exhaustive"] = false
		cov["ingress_nondeterminism_detected"] = nondet
	}
	run.Assumptions = append(run.Assumptions,
		"target ingress: onions are the repo's mock hop iterator (legacy payloads; amount/expiry derivation of blinded payloads in htlcswitch/hop is not covered); the packet is handed to the outgoing link's CheckHtlcForward exactly as Switch.handlePacketAdd does (the Switch's own use of packet fields and verdicts is target switch; circuit bookkeeping of replayed adds is C08); the policy of the incoming link is the same before and after the restart")
	if code := run.Finish(cov); code != 0 {
		os.Exit(code)
	}
}

func mustJSONIng(v any) string {
	b, _ := json.Marshal(v)
	return string(b)
}
