// C09, dimensions added by the audit of the harness against the anchored code.
//
// The original lattice (parts A*, B*) varies the policy, the two safety margins
// and the HTLC. The anchored code reads more than that; every further input that
// can change what CheckHtlcForward / CheckHtlcTransit return is a dimension here
// and is crossed with a *probe lattice*: threshold-1 / threshold / threshold+1
// of every comparison of the statement at one policy point (about 1 500 cases).
//
//	D1  the checked link's OWN InboundFee (a decoy: the statement charges the
//	    incoming link's fee, which arrives as an argument) x the argument
//	D2  ChannelLinkConfig.AuxTrafficShaper: absent / present but not handling /
//	    handling with its own bandwidth figure (below, at, above the channel's) /
//	    declaring the HTLC custom; x custom records absent / present
//	D3  where the failure's channel_update comes from: alias hook / fallback
//	    FetchLastChannelUpdate / nowhere (fetch error)
//	D4  provenance of the policy: constructor argument (cfg.FwrdingPolicy, never
//	    updated) / UpdateForwardingPolicy over a policy that differs in every
//	    field / two updates over a blank one ("restart" of the link object)
//	D5  a link object that is OLDER than the channel state it judges (links
//	    created first, then the spendable balance drops to 37 msat)
//	D6  a window inside the step: UpdateForwardingPolicy lands while the check
//	    runs (driven deterministically from the shaper's callbacks, which the
//	    check invokes between its comparisons)
//	D7  (axis audit) an aux traffic shaper that FAILS (ShouldHandleTraffic or
//	    PaymentBandwidth return an error: the spendable bandwidth cannot be
//	    established, so nothing may be offered) and a shaper whose answer is a
//	    FUNCTION OF THE ARGUMENTS the link hands it (the channel's own
//	    bandwidth minus a constant; the HTLC amount it is asked about minus
//	    one / exactly): the verdict then depends on the link passing the true
//	    channel bandwidth and the true HTLC amount
//
// All oracles are the ones of oracle_test.go; D6 additionally uses "the verdict
// is the verdict under the old or under the new policy as a whole".
package c09

import (
	"errors"
	"fmt"
	"math/big"
	"sort"
	"strings"

	"github.com/lightningnetwork/lnd/fn/v2"
	"github.com/lightningnetwork/lnd/lnpeer"
	"github.com/lightningnetwork/lnd/lnwallet"
	"github.com/lightningnetwork/lnd/lnwire"
	"github.com/lightningnetwork/lnd/routing/route"
	"github.com/lightningnetwork/lnd/tlv"
)

// WinSpec is a policy installed by UpdateForwardingPolicy from inside the check.
type WinSpec struct {
	At    string `json:"at"` // "custom": from IsCustomHTLC (after the fee comparison); "handle": from ShouldHandleTraffic (after the expiry comparisons)
	Min   uint64 `json:"min_htlc_out"`
	Max   uint64 `json:"max_htlc"`
	Base  uint64 `json:"base_fee"`
	Rate  uint64 `json:"fee_rate_ppm"`
	Delta uint32 `json:"time_lock_delta"`
}

// shaper is the harness' AuxTrafficShaper. Its answers are set per call by the
// evaluator; hook (optional) runs at the start of IsCustomHTLC ("custom") and
// of ShouldHandleTraffic ("handle").
type shaper struct {
	handle, custom bool
	mode           string // the case's aux_shaper value
	bw             lnwire.MilliSatoshi
	hook           func(where string)
}

var errShaper = errors.New("aux traffic shaper unavailable")

func (s *shaper) ProduceHtlcExtraData(total lnwire.MilliSatoshi, r lnwire.CustomRecords,
	_ route.Vertex) (lnwire.MilliSatoshi, lnwire.CustomRecords, error) {

	return total, r, nil
}

func (s *shaper) ShouldHandleTraffic(lnwire.ShortChannelID, fn.Option[tlv.Blob], fn.Option[tlv.Blob]) (bool, error) {
	if s.hook != nil {
		s.hook("handle")
	}
	if s.mode == "err-handle" {
		return false, errShaper
	}
	return s.handle, nil
}

func (s *shaper) PaymentBandwidth(_, _, _ fn.Option[tlv.Blob], linkBandwidth, htlcAmt lnwire.MilliSatoshi,
	_ lnwallet.AuxHtlcView, _ route.Vertex) (lnwire.MilliSatoshi, error) {

	switch s.mode {
	case "err-bw":
		return 0, errShaper
	case "bw-link": // the channel's own figure minus a constant
		if linkBandwidth < s.bw {
			return 0, nil
		}
		return linkBandwidth - s.bw, nil
	case "bw-amt": // one msat less than (s.bw = 0) / exactly (s.bw = 1) what is asked for
		if htlcAmt+s.bw < 1 {
			return 0, nil
		}
		return htlcAmt + s.bw - 1, nil
	}
	return s.bw, nil
}

func (s *shaper) IsCustomHTLC(lnwire.CustomRecords) bool {
	if s.hook != nil {
		s.hook("custom")
	}
	return s.custom
}

// fakePeer: the link asks its peer only for the public key (aux bandwidth query).
type fakePeer struct{ lnpeer.Peer }

func (fakePeer) PubKey() [33]byte { return [33]byte{2, 1, 2, 3} }

// dimsOf names the non-default values of the added dimensions of a case.
func dimsOf(c *Case) []string {
	var d []string
	if c.OwnIB != 0 || c.OwnIR != 0 {
		d = append(d, "own-inbound-fee")
	}
	if c.Shaper != "" {
		d = append(d, "shaper="+c.Shaper)
	}
	if c.Records {
		d = append(d, "custom-records")
	}
	if c.UpdSrc != "" {
		d = append(d, "update="+c.UpdSrc)
	}
	if c.Prov != "" {
		d = append(d, "policy="+c.Prov)
	}
	if c.Win != nil {
		d = append(d, "update-in-check@"+c.Win.At)
	}
	if c.World == "live" {
		d = append(d, "link-older-than-channel-state")
	}
	return d
}

func dimSig(c *Case) string {
	d := dimsOf(c)
	if len(d) == 0 {
		return ""
	}
	sort.Strings(d)
	return "|" + strings.Join(d, "|")
}

// ---------------------------------------------------------------------------
// probe lattice

type polPoint struct {
	name                 string
	min, max, base, rate uint64
	delta                uint32
}

var (
	polNZ   = polPoint{"nz", 1000, 5_000_000, 1000, 2500, 40} // every field non-zero
	polZero = polPoint{"zero", 0, 0, 0, 0, 0}                 // every field zero / blank
	polBW   = polPoint{"bw", 0, 0, 1, 1, 1}                   // no limits: the bandwidth governs
	polB    = polPoint{"b", 2000, 4_000_000, 10, 100, 10}
	polC    = polPoint{"c", 3, 0, 5000, 0, 144}
)

func (p polPoint) into(c *Case) {
	c.Min, c.Max, c.Base, c.Rate, c.Delta = p.min, p.max, p.base, p.rate, p.delta
}

func (p polPoint) win(at string) *WinSpec {
	return &WinSpec{At: at, Min: p.min, Max: p.max, Base: p.base, Rate: p.rate, Delta: p.delta}
}

// probe emits the boundary cases of one configuration point. b carries the
// world, the policy, the inbound-fee argument and the added dimensions; the
// two safety margins are the standard ones (13 / 2016) at height 800 000.
// amts: further amounts whose neighbourhood matters (bandwidth figures, the
// thresholds of a second policy); deltas: further time-lock deltas whose
// neighbourhood matters.
func probe(or *oracle, b Case, amts []uint64, deltas []uint32, emit func(c *Case)) {
	b.RejectDelta, b.MaxExpiry, b.Height = aRd, aMe, aHeight
	const o = aHeight + 100
	ds := append([]uint32{b.Delta}, deltas...)

	// expiry pairs: all rules hold, then each rule off by one
	type pair struct{ inT, outT uint32 }
	sits := []pair{
		{aHeight + aRd + b.Delta, aHeight + aRd},         // too soon by one
		{aHeight + aMe + 1 + b.Delta, aHeight + aMe + 1}, // too far by one
		{o + aMe + 1, o}, // gap beyond the range by one
		{o + aMe, o},     // gap exactly at the range
	}
	for _, d := range ds {
		sits = append(sits, pair{o + d, o}, pair{o + d - 1, o}, pair{o + d + 1, o})
	}

	sets := [][]*big.Int{bigs(0, 1, 1<<32, 1<<63-1, 1<<63, 1<<64-1), around(u(b.Min)), around(u(b.Max)), around(u(maxChanMsat))}
	for _, a := range amts {
		sets = append(sets, around(u(a)))
	}
	outs := setU64(sets...)
	for _, out := range outs {
		c := b
		c.Kind, c.Out = kindForward, out
		thr := [][]*big.Int{around(u(out)), bigs(0, maxChanMsat)}
		_, _, req := or.requiredFee(&c)
		thr = append(thr, around(new(big.Int).Add(u(out), req)))
		if c.Win != nil {
			c2 := c
			c2.Min, c2.Max, c2.Base, c2.Rate, c2.Delta = c.Win.Min, c.Win.Max, c.Win.Base, c.Win.Rate, c.Win.Delta
			_, _, req2 := or.requiredFee(&c2)
			thr = append(thr, around(new(big.Int).Add(u(out), req2)))
		}
		for _, in := range setU64(thr...) {
			for _, s := range sits {
				cc := c
				cc.In, cc.InT, cc.OutT = in, s.inT, s.outT
				emit(&cc)
			}
		}
		for _, s := range sits[:3] {
			t := b
			t.Kind, t.Out, t.OutT = kindTransit, out, s.outT
			t.IB, t.IR, t.Delta, t.Base, t.Rate = 0, 0, 0, 0, 0
			if t.Win != nil {
				w := *t.Win
				w.Base, w.Rate, w.Delta = 0, 0, 0
				t.Win = &w
			}
			emit(&t)
		}
	}

	// expiry side, with an amount that satisfies the amount rules where the
	// world allows it and pays the fee exactly / one msat short
	out := uint64(1_000_000)
	if len(amts) > 0 && amts[0] < out {
		out = amts[0] / 2
	}
	c := b
	c.Kind, c.Out = kindForward, out
	_, _, req := or.requiredFee(&c)
	exact := new(big.Int).Add(u(out), req)
	hb := u(aHeight)
	outTs := setU32(around(new(big.Int).Add(hb, u(aRd))), bigs(aHeight+aRd+2), around(new(big.Int).Add(hb, u(aMe))),
		around(hb), bigs(0, 1<<32-1))
	for _, in := range setU64(around(exact)[:2]) {
		for _, outT := range outTs {
			ob := u(uint64(outT))
			l := [][]*big.Int{around(ob), around(new(big.Int).Add(ob, u(aMe)))}
			for _, d := range ds {
				l = append(l, around(new(big.Int).Add(ob, u(uint64(d)))))
			}
			for _, inT := range setU32(l...) {
				cc := c
				cc.In, cc.InT, cc.OutT = in, inT, outT
				emit(&cc)
			}
		}
	}
}

type inb struct{ b, r int32 }

type dimTier struct {
	worlds     []string // worlds of the cheap dimensions
	pols       []polPoint
	args, owns []inb
	auxBW      func(bw uint64) []uint64
	auxK       func(bw uint64) []uint64 // D7: constants a "bw-link" shaper subtracts from the channel's figure
	winPols    []polPoint
	winWorlds  []string
}

func dimTierOf(thorough bool) dimTier {
	d := dimTier{
		worlds: []string{"fresh", "tiny"},
		pols:   []polPoint{polNZ, polZero, polBW},
		args:   []inb{{0, 0}, {-500, -1000}, {100, 5000}},
		owns:   []inb{{7777, -12345}, {-3, 999_999}},
		auxBW: func(bw uint64) []uint64 {
			// nothing, below / exactly / above the channel's own figure, the largest channel
			return []uint64{0, 20, bw, bw + 50_000, maxChanMsat}
		},
		auxK: func(bw uint64) []uint64 {
			// the channel's figure itself, one less, much less, nothing left, saturating
			return []uint64{0, 1, 50_000, bw, bw + 1}
		},
		winPols:   []polPoint{polNZ, polB, polZero, polC},
		winWorlds: []string{"fresh"},
	}
	if thorough {
		d.worlds = []string{"fresh", "peer", "tiny", "zero", "anchors"}
		d.pols = []polPoint{polNZ, polZero, polBW, polB, polC}
		d.args = []inb{{0, 0}, {-500, -1000}, {100, 5000}, {minI32, -1_000_000}, {maxI32, 1_000_000}, {-1, 1}}
		d.owns = []inb{{7777, -12345}, {-3, 999_999}, {minI32, minI32}, {maxI32, maxI32}, {0, 1}, {1, 0}}
		d.auxBW = func(bw uint64) []uint64 {
			l := []uint64{0, 1, 20, 50_000, bw, bw + 1, bw + 50_000, maxChanMsat - 1, maxChanMsat}
			if bw > 0 {
				l = append(l, bw-1)
			}
			return l
		}
		d.auxK = func(bw uint64) []uint64 {
			l := []uint64{0, 1, 2, 999, 1000, 50_000, bw, bw + 1, maxChanMsat}
			if bw > 0 {
				l = append(l, bw-1)
			}
			return l
		}
		d.winPols = []polPoint{polNZ, polB, polZero, polC, polBW}
		d.winWorlds = []string{"fresh", "tiny"}
	}
	return d
}

// buildDimJobs returns the jobs of parts D1..D6. liveBW: the two bandwidth
// figures of the (per-evaluator, identically built) live world.
func buildDimJobs(thorough bool, worlds []*world, liveBW [2]uint64) []job {
	d := dimTierOf(thorough)
	wbw := map[string]uint64{}
	for _, w := range worlds {
		wbw[w.name] = w.bw
	}
	var jobs []job
	add := func(part string, b Case, amts []uint64, deltas []uint32) {
		jobs = append(jobs, job{part, func(e *evaluator) { probe(e.or, b, amts, deltas, e.check) }})
	}
	base := func(wn string, p polPoint, a inb) Case {
		c := Case{World: wn, IB: a.b, IR: a.r}
		p.into(&c)
		return c
	}

	for _, wn := range d.worlds {
		bw := wbw[wn]
		for _, p := range d.pols {
			// D1: own inbound fee x argument
			for _, a := range d.args {
				for _, own := range d.owns {
					c := base(wn, p, a)
					c.OwnIB, c.OwnIR = own.b, own.r
					add("D1-own-inbound-fee", c, []uint64{bw}, nil)
				}
			}
			// D2: aux traffic shaper
			for _, rec := range []bool{false, true} {
				for _, mode := range []string{"pass", "custom"} {
					c := base(wn, p, d.args[1])
					c.Shaper, c.Records = mode, rec
					add("D2-aux-shaper", c, []uint64{bw}, nil)
				}
				for _, ab := range setU64(bigs(d.auxBW(bw)...)) {
					c := base(wn, p, d.args[1])
					c.Shaper, c.Records, c.AuxBW = "bw", rec, ab
					add("D2-aux-shaper", c, []uint64{ab, bw}, nil)
				}
				// D7: failing shaper / shaper answering as a function of its arguments
				for _, mode := range []string{"err-handle", "err-bw"} {
					c := base(wn, p, d.args[1])
					c.Shaper, c.Records = mode, rec
					add("D7-aux-shaper-fails", c, []uint64{bw}, nil)
				}
				for _, k := range setU64(bigs(d.auxK(bw)...)) {
					c := base(wn, p, d.args[1])
					c.Shaper, c.Records, c.AuxBW = "bw-link", rec, k
					eff := uint64(0)
					if bw > k {
						eff = bw - k
					}
					add("D7-aux-shaper-function-of-arguments", c, []uint64{eff, bw}, nil)
				}
				for _, s := range []uint64{0, 1} {
					c := base(wn, p, d.args[1])
					c.Shaper, c.Records, c.AuxBW = "bw-amt", rec, s
					add("D7-aux-shaper-function-of-arguments", c, []uint64{bw}, nil)
				}
			}
			// D3: source of the failure's channel_update
			for _, src := range []string{"fallback", "fetcherr"} {
				for _, sh := range []string{"", "pass"} {
					c := base(wn, p, d.args[1])
					c.UpdSrc, c.Shaper = src, sh
					add("D3-update-source", c, []uint64{bw}, nil)
				}
			}
			// D4: provenance of the policy
			for _, prov := range []string{"ctor", "upd-decoy", "upd-zero"} {
				for _, a := range d.args[:2] {
					c := base(wn, p, a)
					c.Prov = prov
					// the decoy policy's thresholds matter too
					add("D4-policy-provenance", c, []uint64{bw, uint64(decoyPol.MinHTLCOut), uint64(decoyPol.MaxHTLC)},
						[]uint32{decoyPol.TimeLockDelta})
				}
			}
		}
	}

	// D5: link older than the channel state
	for _, p := range d.pols {
		for _, sh := range []string{"", "pass"} {
			for _, a := range d.args[:2] {
				c := base("live", p, a)
				c.Shaper = sh
				add("D5-link-older-than-channel-state", c, []uint64{liveBW[1], liveBW[0]}, nil)
			}
		}
	}

	// D6: policy update inside the check, every ordered pair of policies
	for _, wn := range d.winWorlds {
		bw := wbw[wn]
		for _, p1 := range d.winPols {
			for _, p2 := range d.winPols {
				if p1.name == p2.name {
					continue
				}
				for _, at := range []string{"custom", "handle"} {
					c := base(wn, p1, d.args[1])
					c.Shaper, c.Win = "pass", p2.win(at)
					add("D6-policy-update-in-check", c, []uint64{bw, p2.min, p2.max}, []uint32{p2.delta})
				}
			}
		}
	}
	return jobs
}

var _ = fmt.Sprint
