// C09 oracle: the property statement evaluated in unbounded-integer arithmetic.
//
// Nothing in this file calls into htlcswitch. Every rule of the statement is
// turned into a signed margin m (math/big) such that "rule holds <=> m >= 0";
// the margin also tells how far the case sits from the comparison's threshold,
// which is what the coverage accounting uses (m in {-1,0,+1} = threshold-1,
// threshold, threshold+1).
package c09

import (
	"fmt"
	"math/big"
	"strings"
)

// Rule indices. The order is the order of the statement, not of the code.
const (
	rNoLoss    = iota // outgoing amount does not exceed incoming amount
	rFee              // in-out covers base + proportional fee adjusted by inbound fee/discount
	rMin              // amount >= min_htlc
	rMax              // amount <= max_htlc (0 = no maximum advertised)
	rTooSoon          // outgoing expiry > height + OutgoingCltvRejectDelta
	rTooFar           // outgoing expiry <= height + MaxOutgoingCltvExpiry
	rBandwidth        // amount <= spendable bandwidth
	rDelta            // incoming expiry - outgoing expiry >= time_lock_delta
	rRange            // incoming expiry - outgoing expiry <= MaxOutgoingCltvExpiry
	nRules
)

var ruleNames = [nRules]string{
	"no_loss", "fee", "min_htlc", "max_htlc", "expiry_too_soon",
	"expiry_too_far", "bandwidth", "cltv_delta", "cltv_range",
}

// forwardRules / transitRules: which rules apply to which entry point.
var (
	forwardRules = []int{rNoLoss, rFee, rMin, rMax, rTooSoon, rTooFar, rBandwidth, rDelta, rRange}
	transitRules = []int{rMin, rMax, rTooSoon, rTooFar, rBandwidth}
)

// Realistic domain of the "agrees with exact arithmetic" clause (DESIGN §4 C09):
// heights <= 2^31, configured deltas <= 2^16, amounts <= maximum channel size
// (10 BTC, funding.MaxBtcFundingAmountWumbo), proportional rates <= 100 %
// (outbound, and inbound in absolute value), base fee within its uint32 wire type.
// Expiries are unrestricted (all of uint32, wrap neighbourhoods included).
const (
	maxChanMsat  = uint64(1_000_000_000) * 1000
	maxHeight    = uint64(1) << 31
	maxCfgDelta  = uint64(1) << 16
	maxRatePpm   = uint64(1_000_000)
	maxBaseFee   = uint64(1)<<32 - 1
	inboundCapPp = int64(10_000_000) // models.maxFeeRate: documented cap of the inbound rate
)

// verdict is the oracle's judgement of one case.
type verdict struct {
	holds    [nRules]bool
	mclass   [nRules]int8 // margin clamped to [-2,2]; 3 = rule not applicable / no threshold
	accept   bool
	inDomain bool
	// domainReason names the bounds of the realistic domain the case exceeds
	domainReason string
	// exact values kept for reports
	outFee, inFee, required *big.Int
	margins                 [nRules]*big.Int
}

type oracle struct {
	million *big.Int
}

func newOracle() *oracle { return &oracle{million: big.NewInt(1_000_000)} }

func u(v uint64) *big.Int { return new(big.Int).SetUint64(v) }
func s(v int64) *big.Int  { return big.NewInt(v) }

func clampClass(m *big.Int) int8 {
	if m.IsInt64() {
		v := m.Int64()
		switch {
		case v <= -2:
			return -2
		case v >= 2:
			return 2
		}
		return int8(v)
	}
	if m.Sign() < 0 {
		return -2
	}
	return 2
}

// requiredFee is base + floor(out*rate/1e6) + inboundBase + trunc0(inboundRate*(out+outFee)/1e6).
// Positive inbound fees round down, negative ones (discounts) round up, i.e.
// truncation toward zero, as graph/db/models documents. The inbound rate is capped at
// +-1000 % as documented there; the cap is unreachable inside the realistic domain.
func (o *oracle) requiredFee(c *Case) (outFee, inFee, req *big.Int) {
	outFee = new(big.Int).Mul(u(c.Out), u(c.Rate))
	outFee.Div(outFee, o.million) // operands non-negative: floor
	outFee.Add(outFee, u(c.Base))

	ir := int64(c.IR)
	if ir > inboundCapPp {
		ir = inboundCapPp
	}
	if ir < -inboundCapPp {
		ir = -inboundCapPp
	}
	basis := new(big.Int).Add(u(c.Out), outFee)
	inFee = new(big.Int).Mul(s(ir), basis)
	inFee.Quo(inFee, o.million) // Quo truncates toward zero
	inFee.Add(inFee, s(int64(c.IB)))

	req = new(big.Int).Add(outFee, inFee)
	return
}

func (o *oracle) judge(c *Case) *verdict {
	v := &verdict{}
	for i := range v.mclass {
		v.mclass[i] = 3
	}
	set := func(r int, m *big.Int) {
		v.margins[r] = m
		v.holds[r] = m.Sign() >= 0
		v.mclass[r] = clampClass(m)
	}
	rules := forwardRules
	if c.Kind == kindTransit {
		rules = transitRules
	}
	out, h := u(c.Out), u(uint64(c.Height))
	outT := u(uint64(c.OutT))

	if c.Kind == kindForward {
		in := u(c.In)
		diff := new(big.Int).Sub(in, out)
		set(rNoLoss, new(big.Int).Set(diff))
		v.outFee, v.inFee, v.required = o.requiredFee(c)
		set(rFee, new(big.Int).Sub(diff, v.required))

		gap := new(big.Int).Sub(u(uint64(c.InT)), outT)
		set(rDelta, new(big.Int).Sub(gap, u(uint64(c.Delta))))
		set(rRange, new(big.Int).Sub(u(uint64(c.MaxExpiry)), gap))
	}
	if c.Shaper == "custom" {
		// An aux traffic shaper that declares the HTLC a custom-channel HTLC
		// waives the advertised amount limits (documented in
		// validateHtlcAmount); both rules hold and have no threshold.
		v.holds[rMin], v.holds[rMax] = true, true
	} else {
		set(rMin, new(big.Int).Sub(out, u(c.Min)))
		if c.Max == 0 {
			// no maximum advertised: the rule holds and has no threshold
			v.holds[rMax] = true
		} else {
			set(rMax, new(big.Int).Sub(u(c.Max), out))
		}
	}
	// too soon: outT > h + rd  <=>  outT - h - rd - 1 >= 0
	m := new(big.Int).Sub(outT, h)
	m.Sub(m, u(uint64(c.RejectDelta)))
	m.Sub(m, big.NewInt(1))
	set(rTooSoon, m)
	// too far: outT <= h + me  <=>  h + me - outT >= 0
	m = new(big.Int).Add(h, u(uint64(c.MaxExpiry)))
	m.Sub(m, outT)
	set(rTooFar, m)
	// spendable bandwidth: the channel's, unless an aux traffic shaper handles
	// the channel and reports its own figure.
	bwB := u(c.Bandwidth)
	switch c.Shaper {
	case "bw":
		bwB = u(c.AuxBW)
	case "bw-link": // the shaper reports the channel's figure minus a constant (never below zero)
		bwB.Sub(bwB, u(c.AuxBW))
	case "bw-amt": // the shaper reports the amount it is asked about minus one (AuxBW=0) / exactly (AuxBW=1)
		bwB = new(big.Int).Add(out, u(c.AuxBW))
		bwB.Sub(bwB, big.NewInt(1))
	}
	if bwB.Sign() < 0 {
		bwB.SetInt64(0)
	}
	if shaperFails(c) {
		// The shaper is configured but cannot say whether it handles the channel /
		// how much it can carry: the spendable bandwidth cannot be established, so
		// the rule does not hold (and has no threshold).
		v.holds[rBandwidth] = false
	} else {
		set(rBandwidth, new(big.Int).Sub(bwB, out))
	}

	v.accept = true
	for _, r := range rules {
		if !v.holds[r] {
			v.accept = false
		}
	}

	var why []string
	chk := func(ok bool, name string) {
		if !ok {
			why = append(why, name)
		}
	}
	chk(uint64(c.Height) <= maxHeight, "height>2^31")
	chk(uint64(c.RejectDelta) <= maxCfgDelta, "reject_delta>2^16")
	chk(uint64(c.MaxExpiry) <= maxCfgDelta, "max_expiry>2^16")
	chk(c.Out <= maxChanMsat, "out_amt>max_chan")
	chk(c.AuxBW <= maxChanMsat, "aux_bandwidth>max_chan")
	if c.Kind == kindForward {
		ir := int64(c.IR)
		if ir < 0 {
			ir = -ir
		}
		chk(c.In <= maxChanMsat, "in_amt>max_chan")
		chk(uint64(c.Delta) <= maxCfgDelta, "time_lock_delta>2^16")
		chk(c.Rate <= maxRatePpm, "fee_rate>100%")
		chk(uint64(ir) <= maxRatePpm, "|inbound_rate|>100%")
		chk(c.Base <= maxBaseFee, "base_fee>2^32-1")
	}
	v.inDomain = len(why) == 0
	v.domainReason = strings.Join(why, ",")
	return v
}

// violated lists the rules (of the entry point) the oracle finds violated.
func (v *verdict) violated(kind string) []string {
	rules := forwardRules
	if kind == kindTransit {
		rules = transitRules
	}
	var l []string
	for _, r := range rules {
		if !v.holds[r] {
			l = append(l, ruleNames[r])
		}
	}
	return l
}

// violatedSig is violated() with the margin class of each rule: the stable
// part of a violation signature ("fee(-1)" = one msat short).
func (v *verdict) violatedSig(kind string) string {
	rules := forwardRules
	if kind == kindTransit {
		rules = transitRules
	}
	var l []string
	for _, r := range rules {
		if !v.holds[r] {
			l = append(l, fmt.Sprintf("%s(%d)", ruleNames[r], v.mclass[r]))
		}
	}
	if l == nil {
		return "none"
	}
	return strings.Join(l, "+")
}

// namedSig gives the margin class of the rules a failure code names
// ("fee(+0)" = the fee is met exactly, and yet the failure says it is not).
func (v *verdict) namedSig(rules []int) string {
	var l []string
	for _, r := range rules {
		l = append(l, fmt.Sprintf("%s(%+d)", ruleNames[r], v.mclass[r]))
	}
	return strings.Join(l, ",")
}

// nearSig lists the rules that sit at threshold-1, threshold or threshold+1.
func (v *verdict) nearSig(kind string) string {
	rules := forwardRules
	if kind == kindTransit {
		rules = transitRules
	}
	var l []string
	for _, r := range rules {
		if c := v.mclass[r]; c >= -1 && c <= 1 {
			l = append(l, fmt.Sprintf("%s(%d)", ruleNames[r], c))
		}
	}
	if l == nil {
		return "none"
	}
	return strings.Join(l, "+")
}

func (v *verdict) describe(kind string) string {
	rules := forwardRules
	if kind == kindTransit {
		rules = transitRules
	}
	var b strings.Builder
	for _, r := range rules {
		ms := "n/a"
		if v.margins[r] != nil {
			ms = v.margins[r].String()
		}
		fmt.Fprintf(&b, "%s:holds=%v,margin=%s ", ruleNames[r], v.holds[r], ms)
	}
	if v.required != nil {
		fmt.Fprintf(&b, "[outFee=%s inFee=%s required=%s]", v.outFee, v.inFee, v.required)
	}
	return b.String()
}

// failureNames maps a BOLT-4 failure code name to the rules it may name.
// A rejection is justified iff at least one of them is violated.
var failureNames = map[string][]int{
	"FeeInsufficient":         {rNoLoss, rFee},
	"AmountBelowMinimum":      {rMin},
	"TemporaryChannelFailure": {rMax, rBandwidth},
	"ExpiryTooSoon":           {rTooSoon},
	"ExpiryTooFar":            {rTooFar, rRange},
	"IncorrectCltvExpiry":     {rDelta},
}

// updateRules are the rules whose BOLT-4 failure embeds a channel_update.
var updateRules = []int{rNoLoss, rFee, rMin, rMax, rBandwidth, rTooSoon, rDelta}

// failureRules returns the rules a failure code may name in the case's
// configuration. When the configured aux traffic shaper fails, TemporaryNodeFailure
// stands for the bandwidth rule. When the link cannot obtain any channel_update
// (update_source "fetcherr") a failure that must embed one degrades to
// TemporaryNodeFailure; it then stands for the rules in updateRules. In every
// other configuration TemporaryNodeFailure names no rule of the statement.
func failureRules(code string, c *Case) ([]int, bool) {
	if code == "TemporaryNodeFailure" {
		var l []int
		if c.UpdSrc == "fetcherr" {
			l = append(l, updateRules...)
		}
		if shaperFails(c) {
			// no bandwidth figure could be obtained from the configured shaper
			l = append(l, rBandwidth)
		}
		if l != nil {
			return l, true
		}
	}
	r, ok := failureNames[code]
	return r, ok
}

// shaperFails: the configured aux traffic shaper answers with an error.
func shaperFails(c *Case) bool { return c.Shaper == "err-handle" || c.Shaper == "err-bw" }

// classKey packs the boundary situation of a case into one integer:
// per rule the margin class (6 values), the entry point, the code's outcome.
func (v *verdict) classKey(kind string, outcome int) uint64 {
	var k uint64
	for r := 0; r < nRules; r++ {
		k = k*6 + uint64(v.mclass[r]+2)
	}
	k *= 2
	if kind == kindTransit {
		k++
	}
	k = k*16 + uint64(outcome)
	return k
}

func (v *verdict) nontrivial() bool {
	for r := 0; r < nRules; r++ {
		if c := v.mclass[r]; c >= -1 && c <= 1 {
			return true
		}
	}
	return false
}
