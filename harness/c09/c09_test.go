// C09: an HTLC is forwarded only if it meets the advertised policy and loses no money.
//
// Seam: htlcswitch.NewChannelLink(cfg, realChannel) (never started) and the exported
// CheckHtlcForward / CheckHtlcTransit / UpdateForwardingPolicy / Bandwidth of the
// ChannelLink interface. The channel is a real lnwallet.LightningChannel so that
// Bandwidth() is the real spendable balance. No unexported identifier is used.
//
// Enumerated (all exhaustive cross products, no sampling):
//
//	A  boundary lattice: for every policy/config point the threshold solver (math/big)
//	   emits threshold-1, threshold, threshold+1 on the governing input of every
//	   comparison of the statement, plus structural values (0, 1, type limits,
//	   maximum channel size, uint32 wrap neighbourhoods);
//	B  a fully exhaustive sweep of small sub-domains (6-bit amounts, 6-bit expiries in
//	   four windows incl. the uint32 wrap, a joint 4-bit/3-bit domain).
//
// Oracle: oracle_test.go (exact arithmetic, rule margins, failure -> rule map).
package c09

import (
	"crypto/sha256"
	"encoding/json"
	"errors"
	"fmt"
	"math"
	"math/big"
	"os"
	"runtime"
	"sort"
	"strconv"
	"strings"
	"sync"
	"sync/atomic"
	"testing"
	"time"

	"github.com/lightningnetwork/lnd/channeldb"
	"github.com/lightningnetwork/lnd/fn/v2"
	"github.com/lightningnetwork/lnd/graph/db/models"
	"github.com/lightningnetwork/lnd/htlcswitch"
	"github.com/lightningnetwork/lnd/lnwallet"
	"github.com/lightningnetwork/lnd/lnwire"
	"github.com/lightningnetwork/lnd/verifmc/evid"
)

const (
	kindForward = "forward"
	kindTransit = "transit"
)

// Case is one fully specified evaluation (also the replay artefact).
type Case struct {
	Kind        string `json:"kind"`
	World       string `json:"world"`
	Bandwidth   uint64 `json:"bandwidth_msat"` // measured from the real link, input of the oracle
	Min         uint64 `json:"min_htlc_out"`
	Max         uint64 `json:"max_htlc"`
	Base        uint64 `json:"base_fee"`
	Rate        uint64 `json:"fee_rate_ppm"`
	Delta       uint32 `json:"time_lock_delta"`
	IB          int32  `json:"inbound_base"`
	IR          int32  `json:"inbound_rate_ppm"`
	RejectDelta uint32 `json:"outgoing_cltv_reject_delta"`
	MaxExpiry   uint32 `json:"max_outgoing_cltv_expiry"`
	In          uint64 `json:"incoming_amt"`
	Out         uint64 `json:"outgoing_amt"`
	InT         uint32 `json:"incoming_expiry"`
	OutT        uint32 `json:"outgoing_expiry"`
	Height      uint32 `json:"height"`

	// Dimensions added by the audit (zero value = the behaviour of the original
	// lattice, so older replay artefacts stay valid). See dims_test.go.
	OwnIB   int32    `json:"own_inbound_base,omitempty"`       // InboundFee of the checked link's OWN policy (must not matter)
	OwnIR   int32    `json:"own_inbound_rate_ppm,omitempty"`   //
	Shaper  string   `json:"aux_shaper,omitempty"`             // "", "pass", "bw", "custom", "err-handle", "err-bw", "bw-link", "bw-amt"
	AuxBW   uint64   `json:"aux_bandwidth_msat,omitempty"`     // mode "bw": bandwidth reported; "bw-link": constant subtracted from the channel's figure; "bw-amt": 0 = reports amount-1, 1 = reports the amount
	Records bool     `json:"custom_records,omitempty"`         // HTLC carries a custom record
	UpdSrc  string   `json:"update_source,omitempty"`          // "", "fallback", "fetcherr"
	Prov    string   `json:"policy_provenance,omitempty"`      // "", "ctor", "upd-decoy", "upd-zero"
	Win     *WinSpec `json:"policy_update_in_check,omitempty"` // policy installed from inside the check
}

// ---------------------------------------------------------------------------
// worlds: real channels with different spendable bandwidth

type world struct {
	name string
	ch   *lnwallet.LightningChannel
	bw   uint64
	// bwAtLinkCreation differs from bw for the "live" world only: its links are
	// created first, then the channel state changes.
	bwAtLinkCreation uint64
}

// liveAmt is the HTLC that takes an untouched initiator channel down to 37 msat.
var liveAmt uint64

func addHTLC(t *testing.T, ch *lnwallet.LightningChannel, amt uint64, i byte) {
	h := sha256.Sum256([]byte{i})
	_, err := ch.AddHTLC(&lnwire.UpdateAddHTLC{
		PaymentHash: h, Amount: lnwire.MilliSatoshi(amt), Expiry: 500,
	}, nil)
	if err != nil {
		t.Fatalf("world construction: AddHTLC(%d): %v", amt, err)
	}
}

// buildWorlds creates the channels. "fresh": initiator side of an untouched
// 10 BTC channel; "peer": the non-initiator side; "tiny"/"zero": the initiator
// after offering an HTLC that leaves 37 msat / nothing spendable, so that the
// bandwidth threshold falls inside the exhaustive 6-bit amount domain.
func buildWorlds(t *testing.T) []*world {
	mk := func() (*lnwallet.LightningChannel, *lnwallet.LightningChannel) {
		a, b, err := lnwallet.CreateTestChannels(t, channeldb.SingleFunderTweaklessBit)
		if err != nil {
			t.Fatalf("CreateTestChannels: %v", err)
		}
		return a, b
	}
	a0, b0 := mk()
	ws := []*world{
		{name: "fresh", ch: a0, bw: uint64(a0.AvailableBalance())},
		{name: "peer", ch: b0, bw: uint64(b0.AvailableBalance())},
	}
	// Measure the constant cost K of carrying one more non-dust HTLC.
	a1, _ := mk()
	bw0 := uint64(a1.AvailableBalance())
	addHTLC(t, a1, bw0/2, 1)
	k := bw0 - bw0/2 - uint64(a1.AvailableBalance())
	for _, target := range []uint64{37, 0} {
		a, _ := mk()
		addHTLC(t, a, bw0-k-target, 2)
		got := uint64(a.AvailableBalance())
		name := "tiny"
		if target == 0 {
			name = "zero"
		}
		if got != target {
			// Not an lnd defect: only the harness' way of steering the balance.
			fmt.Printf("INFO world %s: wanted bandwidth %d, got %d (kept as is)\n", name, target, got)
		}
		ws = append(ws, &world{name: name, ch: a, bw: got})
	}
	liveAmt = bw0 - k - 37
	// another channel type: anchors (the checks are type-agnostic; only the
	// measured bandwidth differs).
	an, _, err := lnwallet.CreateTestChannels(t, channeldb.SingleFunderTweaklessBit|
		channeldb.AnchorOutputsBit|channeldb.ZeroHtlcTxFeeBit)
	if err != nil {
		t.Fatalf("CreateTestChannels(anchors): %v", err)
	}
	ws = append(ws, &world{name: "anchors", ch: an, bw: uint64(an.AvailableBalance())})
	for _, w := range ws {
		w.bwAtLinkCreation = w.bw
	}
	return ws
}

// ---------------------------------------------------------------------------
// evaluator: one per worker; owns its links (a link is mutated by UpdateForwardingPolicy)

type linkKey struct {
	w      string
	rd, me uint32
	shaper bool // an AuxTrafficShaper is configured (fixed at construction)
}

type outcomeT struct {
	Accept bool   `json:"accept"`
	Code   string `json:"failure,omitempty"`
	Detail string `json:"detail,omitempty"`
	Panic  string `json:"panic,omitempty"`
}

func (o outcomeT) String() string {
	switch {
	case o.Panic != "":
		return "PANIC " + o.Panic
	case o.Accept:
		return "accept"
	}
	if o.Detail != "" {
		return o.Code + "/" + o.Detail
	}
	return o.Code
}

var outcomeIdx = map[string]int{
	"accept": 0, "FeeInsufficient": 1, "AmountBelowMinimum": 2, "TemporaryChannelFailure": 3,
	"ExpiryTooSoon": 4, "ExpiryTooFar": 5, "IncorrectCltvExpiry": 6,
}

type stats struct {
	evals         int
	byPart        map[string]int
	byDim         map[string]int
	outcomes      map[string]int // kind:outcome
	ruleViolated  map[string]int // oracle: rule found violated
	nearThreshold map[string]int // rule(class) for class in -1,0,1
	classes       map[uint64]struct{}
	classesNT     map[uint64]struct{}
	inDomain      int
	outDomain     int
	outMismatch   map[string]int
	outSamples    []any
	samples       map[string][]any
	nondet        int
}

func newStats() *stats {
	return &stats{byPart: map[string]int{}, byDim: map[string]int{}, outcomes: map[string]int{}, ruleViolated: map[string]int{},
		nearThreshold: map[string]int{}, classes: map[uint64]struct{}{}, classesNT: map[uint64]struct{}{},
		outMismatch: map[string]int{}, samples: map[string][]any{}}
}

type evaluator struct {
	run     *evid.Run
	worlds  []*world
	live    *world // evaluator-local world, see initLive
	links   map[linkKey]htlcswitch.ChannelLink
	lastPol map[linkKey]models.ForwardingPolicy
	havePol map[linkKey]bool
	or      *oracle
	st      *stats
	part    string
	samples *evid.Samples
	verbose bool
	upd     *lnwire.ChannelUpdate1
	updMode string  // how the failure's channel_update is obtained for the current call
	sh      *shaper // the aux traffic shaper of this evaluator's shaper links
}

func newEvaluator(run *evid.Run, worlds []*world, samples *evid.Samples) *evaluator {
	return &evaluator{run: run, worlds: worlds, links: map[linkKey]htlcswitch.ChannelLink{},
		lastPol: map[linkKey]models.ForwardingPolicy{}, havePol: map[linkKey]bool{},
		or: newOracle(), st: newStats(), samples: samples, upd: &lnwire.ChannelUpdate1{}, sh: &shaper{}}
}

func (e *evaluator) world(name string) *world {
	if name == "live" {
		return e.live
	}
	for _, w := range e.worlds {
		if w.name == name {
			return w
		}
	}
	return nil
}

// initLive builds this evaluator's private "live" world: an untouched initiator
// channel whose links are created FIRST (spendable bandwidth ~4.9 BTC) and which
// then offers an HTLC that leaves 37 msat spendable. A link that remembered
// anything about the channel from its construction time is stale there.
// Must be called from the test goroutine.
func (e *evaluator) initLive(t *testing.T) {
	a, _, err := lnwallet.CreateTestChannels(t, channeldb.SingleFunderTweaklessBit)
	if err != nil {
		t.Fatalf("CreateTestChannels(live): %v", err)
	}
	w := &world{name: "live", ch: a, bwAtLinkCreation: uint64(a.AvailableBalance())}
	e.live = w
	for _, sh := range []bool{false, true} {
		k := linkKey{"live", aRd, aMe, sh}
		l := e.newLink(k, nil)
		// touch the bandwidth once so that a memoising link would have a value
		_ = l.Bandwidth()
		e.links[k] = l
	}
	addHTLC(t, a, liveAmt, 3)
	w.bw = uint64(a.AvailableBalance())
}

// newLink builds a fresh, never started link. pol (optional) is handed to the
// constructor as cfg.FwrdingPolicy.
func (e *evaluator) newLink(k linkKey, pol *models.ForwardingPolicy) htlcswitch.ChannelLink {
	cfg := htlcswitch.ChannelLinkConfig{
		OutgoingCltvRejectDelta: k.rd,
		MaxOutgoingCltvExpiry:   k.me,
		// The failure carries "our latest channel update"; its content is not
		// part of the property, a fixed one is supplied. HOW it is obtained is a
		// dimension: from the alias hook, from the fallback, or not at all.
		FailAliasUpdate: func(lnwire.ShortChannelID, bool) *lnwire.ChannelUpdate1 {
			if e.updMode != "" {
				return nil
			}
			return e.upd
		},
		FetchLastChannelUpdate: func(lnwire.ShortChannelID) (*lnwire.ChannelUpdate1, error) {
			if e.updMode == "fetcherr" {
				return nil, errors.New("no channel update known")
			}
			return e.upd, nil
		},
		DisallowQuiescence: true,
	}
	if pol != nil {
		cfg.FwrdingPolicy = *pol
	}
	if k.shaper {
		cfg.AuxTrafficShaper = fn.Some[htlcswitch.AuxTrafficShaper](e.sh)
		cfg.Peer = fakePeer{}
	}
	return htlcswitch.NewChannelLink(cfg, e.world(k.w).ch)
}

func (e *evaluator) link(k linkKey) htlcswitch.ChannelLink {
	if l, ok := e.links[k]; ok {
		return l
	}
	if k.w == "live" {
		panic("the live world only has links with the standard reject delta / max expiry")
	}
	l := e.newLink(k, nil)
	e.links[k] = l
	return l
}

func polOf(c *Case) models.ForwardingPolicy {
	return models.ForwardingPolicy{
		MinHTLCOut: lnwire.MilliSatoshi(c.Min), MaxHTLC: lnwire.MilliSatoshi(c.Max),
		BaseFee: lnwire.MilliSatoshi(c.Base), FeeRate: lnwire.MilliSatoshi(c.Rate),
		TimeLockDelta: c.Delta,
		// The link's own InboundFee is what it charges when it is the *incoming*
		// link; the forwarding check receives the incoming link's fee as an
		// argument. OwnIB/OwnIR are therefore decoys.
		InboundFee: models.InboundFee{Base: c.OwnIB, Rate: c.OwnIR},
	}
}

// decoyPol differs from every enumerated policy in every field.
var decoyPol = models.ForwardingPolicy{MinHTLCOut: 77_777, MaxHTLC: 88_888, BaseFee: 9_999, FeeRate: 54_321,
	TimeLockDelta: 77, InboundFee: models.InboundFee{Base: 4_444, Rate: 3_333}}

// call runs the real code on one case.
func (e *evaluator) call(c *Case) (o outcomeT) {
	defer func() {
		if r := recover(); r != nil {
			o = outcomeT{Panic: fmt.Sprint(r)}
		}
		e.sh.hook = nil
	}()
	if e.world(c.World) == nil {
		panic("unknown world " + c.World)
	}
	k := linkKey{c.World, c.RejectDelta, c.MaxExpiry, c.Shaper != ""}
	pol := polOf(c)
	var l htlcswitch.ChannelLink
	switch c.Prov {
	case "":
		l = e.link(k)
		if !e.havePol[k] || e.lastPol[k] != pol {
			l.UpdateForwardingPolicy(pol)
			e.lastPol[k], e.havePol[k] = pol, true
		}
	case "ctor": // policy handed to the constructor, never updated
		if k.w == "live" {
			panic("provenance cases do not run in the live world")
		}
		l = e.newLink(k, &pol)
	case "upd-decoy": // constructed with a policy that differs in every field
		l = e.newLink(k, &decoyPol)
		l.UpdateForwardingPolicy(pol)
	case "upd-zero": // constructed blank, updated twice
		l = e.newLink(k, nil)
		l.UpdateForwardingPolicy(decoyPol)
		l.UpdateForwardingPolicy(pol)
	default:
		panic("unknown provenance " + c.Prov)
	}
	e.updMode = c.UpdSrc
	var records lnwire.CustomRecords
	if c.Records {
		records = lnwire.CustomRecords{lnwire.MinCustomRecordsTlvType + 7: []byte{1}}
	}
	if c.Shaper != "" {
		switch c.Shaper {
		case "pass", "bw", "custom", "err-handle", "err-bw", "bw-link", "bw-amt":
		default:
			panic("unknown aux shaper mode " + c.Shaper)
		}
		handles := c.Shaper == "bw" || c.Shaper == "err-bw" || c.Shaper == "bw-link" || c.Shaper == "bw-amt"
		e.sh.mode = c.Shaper
		e.sh.handle, e.sh.custom, e.sh.bw = handles, c.Shaper == "custom", lnwire.MilliSatoshi(c.AuxBW)
		if c.Win != nil {
			w := c.Win
			p2 := models.ForwardingPolicy{MinHTLCOut: lnwire.MilliSatoshi(w.Min), MaxHTLC: lnwire.MilliSatoshi(w.Max),
				BaseFee: lnwire.MilliSatoshi(w.Base), FeeRate: lnwire.MilliSatoshi(w.Rate), TimeLockDelta: w.Delta}
			at := w.At
			e.sh.hook = func(where string) {
				if where == at {
					l.UpdateForwardingPolicy(p2)
				}
			}
			e.havePol[k] = false
		}
	} else if c.Win != nil {
		panic("a policy update inside the check needs a shaper hook")
	}
	var hash [32]byte
	var le *htlcswitch.LinkError
	if c.Kind == kindTransit {
		le = l.CheckHtlcTransit(hash, lnwire.MilliSatoshi(c.Out), c.OutT, c.Height, records)
	} else {
		le = l.CheckHtlcForward(hash, lnwire.MilliSatoshi(c.In), lnwire.MilliSatoshi(c.Out),
			c.InT, c.OutT, models.InboundFee{Base: c.IB, Rate: c.IR}, c.Height,
			lnwire.ShortChannelID{BlockHeight: 1}, records)
	}
	if le == nil {
		return outcomeT{Accept: true}
	}
	msg := le.WireMessage()
	if msg == nil {
		return outcomeT{Code: "nil-wire-message"}
	}
	o.Code = msg.Code().String()
	if le.FailureDetail != nil {
		o.Detail = le.FailureDetail.FailureString()
	}
	return o
}

// check evaluates one case on the real code and judges it.
func (e *evaluator) check(c *Case) {
	w := e.world(c.World)
	if w == nil {
		panic("unknown world " + c.World)
	}
	c.Bandwidth = w.bw
	o := e.call(c)
	v := e.or.judge(c)
	st := e.st
	st.evals++
	st.byPart[e.part]++
	st.outcomes[c.Kind+":"+o.String()]++
	oi, known := outcomeIdx[o.Code]
	if o.Accept {
		oi, known = 0, true
	}
	if !known {
		oi = 15
	}
	ck := v.classKey(c.Kind, oi)
	if _, ok := st.classes[ck]; !ok {
		st.classes[ck] = struct{}{}
		if v.nontrivial() {
			st.classesNT[ck] = struct{}{}
			// keep a few written-out cases per part; prefer a new outcome each time
			if l := st.samples[e.part]; len(l) < 3 && (len(l) == 0 || st.outcomes[c.Kind+":"+o.String()] == 1) {
				st.samples[e.part] = append(l, map[string]any{"part": e.part, "case": *c, "code": o.String(), "oracle_accept": v.accept,
					"violated": v.violated(c.Kind), "at_threshold": v.nearSig(c.Kind), "in_realistic_domain": v.inDomain})
			}
		}
	}
	rules := forwardRules
	if c.Kind == kindTransit {
		rules = transitRules
	}
	for _, r := range rules {
		if !v.holds[r] {
			st.ruleViolated[ruleNames[r]]++
		}
		if cl := v.mclass[r]; cl >= -1 && cl <= 1 {
			st.nearThreshold[fmt.Sprintf("%s(%+d)", ruleNames[r], cl)]++
		}
	}
	if v.inDomain {
		st.inDomain++
	} else {
		st.outDomain++
	}

	for _, d := range dimsOf(c) {
		st.byDim[d]++
	}

	problem, sig := e.judgeOutcome(c, o, v)
	inDomain, domainReason := v.inDomain, v.domainReason
	var v2 *verdict
	if c.Win != nil {
		// A policy update lands while the check runs: the verdict has to be the
		// verdict under the old policy or the verdict under the new policy as a
		// whole (the check is atomic w.r.t. policy updates), never a mixture.
		c2 := *c
		c2.Min, c2.Max, c2.Base, c2.Rate, c2.Delta = c.Win.Min, c.Win.Max, c.Win.Base, c.Win.Rate, c.Win.Delta
		v2 = e.or.judge(&c2)
		if problem != "" {
			if p2, _ := e.judgeOutcome(&c2, o, v2); p2 == "" {
				problem, sig = "", ""
			} else {
				problem = "with a policy update arriving inside the check the verdict fits neither the old policy (" + problem +
					") nor the new policy (" + p2 + ")"
			}
		}
		if !v2.inDomain {
			inDomain, domainReason = false, v2.domainReason
		}
	}
	if sig != "" {
		sig += dimSig(c)
	}
	if e.verbose {
		fmt.Printf("INFO case %s\n", mustJSON(c))
		fmt.Printf("INFO real code: %s\n", o)
		fmt.Printf("INFO exact arithmetic: accept=%v in_realistic_domain=%v  %s\n", v.accept, v.inDomain, v.describe(c.Kind))
		if v2 != nil {
			fmt.Printf("INFO exact arithmetic under the policy installed inside the check: accept=%v  %s\n", v2.accept, v2.describe(c.Kind))
		}
		if problem == "" {
			fmt.Printf("INFO verdict: agrees with the statement\n")
		} else {
			fmt.Printf("INFO verdict: %s\n", problem)
		}
	}
	if problem == "" {
		return
	}
	if !inDomain && sig[:4] != "hard" {
		// Enumerated but outside the realistic domain of the exact-arithmetic
		// clause: reported separately, never as a violation.
		st.outMismatch[coarse(sig)+" outside:"+domainReason]++
		if len(st.outSamples) < 3 {
			st.outSamples = append(st.outSamples, map[string]any{"case": *c, "code": o.String(), "exact": v.describe(c.Kind), "what": problem})
		}
		return
	}
	// Determinism gate: the same case three more times must give the same outcome.
	for i := 0; i < 3; i++ {
		if o2 := e.call(c); o2 != o {
			st.nondet++
			return
		}
	}
	e.run.Violation(sig, fmt.Sprintf("%s; case=%s; exact: %s", problem, mustJSON(c), v.describe(c.Kind)), c)
}

// judgeOutcome compares the code's outcome with the oracle. It returns "" if
// they agree. Signatures starting with "hard" hold on every input, also
// outside the realistic domain (money-loss clause, panics, unknown failures).
func (e *evaluator) judgeOutcome(c *Case, o outcomeT, v *verdict) (problem, sig string) {
	switch {
	case o.Panic != "":
		return "the check panicked: " + o.Panic, "hard:panic:" + c.Kind
	case o.Accept && c.Kind == kindForward && !v.holds[rNoLoss]:
		return "accepted a forward whose outgoing amount exceeds the incoming amount (money lost)",
			"hard:accepted-money-loss:" + v.violatedSig(c.Kind)
	case o.Accept && !v.accept:
		return "accepted although the statement's rules " + fmt.Sprint(v.violated(c.Kind)) + " are violated",
			"accept-mismatch:" + c.Kind + ":code=accept:violated=" + v.violatedSig(c.Kind)
	case o.Accept:
		return "", ""
	}
	names, ok := failureRules(o.Code, c)
	if !ok {
		return "rejected with a failure that names none of the statement's rules: " + o.String(),
			"hard:unexpected-failure:" + c.Kind + ":" + o.Code
	}
	if v.accept {
		return "rejected with " + o.String() + " although every rule of the statement holds",
			"reject-mismatch:" + c.Kind + ":code=" + o.Code + ":named=" + v.namedSig(names)
	}
	for _, r := range names {
		if !v.holds[r] {
			return "", ""
		}
	}
	return "rejected with " + o.String() + " but that rule is not violated (violated: " + fmt.Sprint(v.violated(c.Kind)) + ")",
		"wrong-failure:" + c.Kind + ":code=" + o.Code + ":named=" + v.namedSig(names)
}

// coarse keeps "<mismatch kind>:<entry point>:code=<outcome>" of a signature.
func coarse(sig string) string {
	n := 0
	for i := 0; i < len(sig); i++ {
		if sig[i] == ':' {
			n++
			if n == 3 {
				return sig[:i]
			}
		}
	}
	return sig
}

func mustJSON(v any) string {
	b, _ := json.Marshal(v)
	return string(b)
}

// ---------------------------------------------------------------------------
// candidate-set helpers (threshold solver output -> machine values)

var (
	two32 = new(big.Int).Lsh(big.NewInt(1), 32)
	two64 = new(big.Int).Lsh(big.NewInt(1), 64)
)

// around returns t-1, t, t+1.
func around(t *big.Int) []*big.Int {
	return []*big.Int{new(big.Int).Sub(t, big.NewInt(1)), new(big.Int).Set(t), new(big.Int).Add(t, big.NewInt(1))}
}

// setU64 keeps the representable values, de-duplicated and sorted.
func setU64(vals ...[]*big.Int) []uint64 {
	seen := map[uint64]bool{}
	var out []uint64
	for _, l := range vals {
		for _, b := range l {
			if b.Sign() < 0 || b.Cmp(two64) >= 0 {
				continue
			}
			x := b.Uint64()
			if !seen[x] {
				seen[x] = true
				out = append(out, x)
			}
		}
	}
	sort.Slice(out, func(i, j int) bool { return out[i] < out[j] })
	return out
}

// setU32 keeps representable values and, for values that do not fit, the value
// reduced mod 2^32 (where a wrapped computation would land).
func setU32(vals ...[]*big.Int) []uint32 {
	seen := map[uint32]bool{}
	var out []uint32
	add := func(x uint32) {
		if !seen[x] {
			seen[x] = true
			out = append(out, x)
		}
	}
	for _, l := range vals {
		for _, b := range l {
			if b.Sign() >= 0 && b.Cmp(two32) < 0 {
				add(uint32(b.Uint64()))
			} else {
				m := new(big.Int).Mod(b, two32) // Euclidean: always in [0,2^32)
				add(uint32(m.Uint64()))
			}
		}
	}
	sort.Slice(out, func(i, j int) bool { return out[i] < out[j] })
	return out
}

func bigs(v ...uint64) []*big.Int {
	var l []*big.Int
	for _, x := range v {
		l = append(l, u(x))
	}
	return l
}

// ---------------------------------------------------------------------------
// the enumerated space

type job struct {
	part string
	fn   func(e *evaluator)
}

type tierCfg struct {
	base, rate, min, max []uint64
	ib, ir               []int32
	worldsA              []string
	expSituations        int
	delta, rd, me        []uint32
	heights              []uint32
	b1Rate, b1Base       []uint64
	b1IB, b1IR           []int32
	b1Min, b1Max         []uint64
	b1Worlds             []string
	b2Delta, b2Rd, b2Me  []uint32
	b2Windows            []uint32
	b3                   bool
}

const (
	minI32 = math.MinInt32
	maxI32 = math.MaxInt32
)

func tier(thorough bool) tierCfg {
	t := tierCfg{
		expSituations: len(expSits),
		min:           []uint64{0, 1000},
		max:           []uint64{0, 1, 1000},
		base:          []uint64{0, 1, 1000, 1<<32 - 1},
		rate:          []uint64{0, 1, 999_999, 1_000_000},
		ib:            []int32{minI32, -1_000_000, -1, 0, 1, maxI32},
		ir:            []int32{minI32, -1_000_000, -1, 0, 1, 1_000_000, maxI32},
		worldsA:       []string{"fresh", "tiny"},
		delta:         []uint32{0, 1, 40, 2016},
		// both safety margins: zero, small, the shipped default (13 / 2016) and
		// default+1 (a configured value above the default must be honoured too)
		rd:        []uint32{0, 3, 13, 14},
		me:        []uint32{0, 1, 2016, 2017},
		heights:   []uint32{0, 1, 800_000, 1 << 31, 1<<32 - 2017, 1<<32 - 14, 1<<32 - 1},
		b1Rate:    []uint64{0, 250_000, 500_000, 1_000_000},
		b1Base:    []uint64{0, 1, 3},
		b1IB:      []int32{-2, -1, 0, 1},
		b1IR:      []int32{-1_000_000, -500_000, 0, 333_333},
		b1Min:     []uint64{0, 5},
		b1Max:     []uint64{0, 40},
		b1Worlds:  []string{"fresh", "tiny"},
		b2Delta:   []uint32{0, 1, 5},
		b2Rd:      []uint32{0, 1, 3},
		b2Me:      []uint32{1, 4, 20},
		b2Windows: []uint32{0, 800_000, 1<<31 - 32, 1<<32 - 64},
	}
	if thorough {
		t.min = []uint64{0, 1, 1000}
		t.max = []uint64{0, 1, 999, 1000}
		t.base = []uint64{0, 1, 999, 1000, 1<<32 - 1}
		t.rate = []uint64{0, 1, 2500, 500_000, 999_999, 1_000_000}
		t.ib = []int32{minI32, -1_000_000, -1001, -1, 0, 1, 1000, maxI32}
		t.ir = []int32{minI32, -10_000_001, -10_000_000, -1_000_001, -1_000_000, -500_000, -1, 0, 1, 500_000, 1_000_000, 1_000_001, maxI32}
		t.worldsA = []string{"fresh", "peer", "tiny", "zero"}
		t.delta = []uint32{0, 1, 40, 144, 2016, 65535, 65536, 1<<32 - 1}
		t.rd = []uint32{0, 1, 3, 12, 13, 14, 40, 65536, 1<<32 - 1}
		t.me = []uint32{0, 1, 2015, 2016, 2017, 4032, 65536, 1<<32 - 1}
		t.heights = []uint32{0, 1, 800_000, 1<<31 - 1, 1 << 31, 1<<31 + 1, 1<<32 - 65537, 1<<32 - 2017, 1<<32 - 14, 1<<32 - 2, 1<<32 - 1}
		t.b1Rate = []uint64{0, 1, 250_000, 333_333, 500_000, 999_999, 1_000_000}
		t.b1Base = []uint64{0, 1, 2, 7}
		t.b1IB = []int32{-9, -2, -1, 0, 1, 2}
		t.b1IR = []int32{-1_000_000, -500_000, -333_333, 0, 333_333, 500_000, 1_000_000}
		t.b1Min = []uint64{0, 1, 5}
		t.b1Max = []uint64{0, 40, 63}
		t.b1Worlds = []string{"fresh", "tiny", "zero"}
		t.b2Delta = []uint32{0, 1, 2, 5, 40}
		t.b2Rd = []uint32{0, 1, 3, 13}
		t.b2Me = []uint32{0, 1, 4, 20, 63}
		t.b2Windows = []uint32{0, 800_000, 1<<31 - 32, 1 << 31, 1<<32 - 64}
		t.b3 = true
	}
	return t
}

// expiry situations used by the amount parts: one where every time-lock rule
// holds, then one violating each time-lock rule by exactly one block.
// (reject delta 13, max expiry 2016, policy delta 40, height 800000)
type expSit struct{ inT, outT uint32 }

const (
	aRd, aMe, aDelta, aHeight = 13, 2016, 40, 800_000
)

var expSits = []expSit{
	{aHeight + 100 + aDelta, aHeight + 100},         // all hold
	{aHeight + aRd + aDelta, aHeight + aRd},         // too soon by one
	{aHeight + aMe + 1 + aDelta, aHeight + aMe + 1}, // too far by one
	{aHeight + 100 + aDelta - 1, aHeight + 100},     // delta short by one
	{aHeight + 100 + aMe + 1, aHeight + 100},        // gap beyond range by one
}

// amount situations used by the expiry parts: (policy, in, out) on world "fresh".
type amtSit struct {
	min, max, base, rate uint64
	ib, ir               int32
	in, out              uint64
}

var amtSits = []amtSit{
	{1000, 10_000_000_000, 1000, 2500, -500, -1000, 1_000_000 + 1000 + 2500 - 500 - 1003, 1_000_000},     // fee exactly met
	{1000, 10_000_000_000, 1000, 2500, -500, -1000, 1_000_000 + 1000 + 2500 - 500 - 1003 - 1, 1_000_000}, // one msat short
	{1000, 10_000_000_000, 0, 0, 0, 0, 999, 999},                                                         // below minimum
	{1000, 10_000_000_000, 0, 0, 0, 0, 10_000_000_001, 10_000_000_001},                                   // above maximum
	{0, 0, 0, 0, 0, 0, maxChanMsat, maxChanMsat},                                                         // above bandwidth
}

func buildJobs(t tierCfg, worlds []*world) []job {
	var jobs []job
	wbw := map[string]uint64{}
	for _, w := range worlds {
		wbw[w.name] = w.bw
	}
	or := newOracle()

	// ---- A1: amount lattice (forward) ------------------------------------
	for _, wn := range t.worldsA {
		bw := wbw[wn]
		minSet := setU64(bigs(t.min...), bigs(bw), around(u(bw))[2:])
		maxSet := setU64(bigs(t.max...), around(u(bw))[:1], around(u(bw))[2:], bigs(maxChanMsat))
		for _, base := range t.base {
			for _, rate := range t.rate {
				for _, ib := range t.ib {
					for _, ir := range t.ir {
						wn, bw, base, rate, ib, ir := wn, bw, base, rate, ib, ir
						jobs = append(jobs, job{"A1-amount-lattice", func(e *evaluator) {
							for _, mn := range minSet {
								for _, mx := range maxSet {
									outs := setU64(bigs(0, 1, 1<<32, 1<<63-1, 1<<63, 1<<64-1),
										around(u(mn)), around(u(mx)), around(u(bw)), around(u(maxChanMsat)))
									for _, out := range outs {
										c := Case{Kind: kindForward, World: wn, Min: mn, Max: mx, Base: base, Rate: rate,
											Delta: aDelta, IB: ib, IR: ir, RejectDelta: aRd, MaxExpiry: aMe, Out: out, Height: aHeight}
										_, _, req := or.requiredFee(&c)
										thr := new(big.Int).Add(u(out), req) // smallest incoming amount covering the fee
										ins := setU64(around(thr), around(u(out)), bigs(0, maxChanMsat, 1<<64-1))
										for _, in := range ins {
											for si := 0; si < t.expSituations; si++ {
												cc := c
												cc.In, cc.InT, cc.OutT = in, expSits[si].inT, expSits[si].outT
												e.check(&cc)
											}
										}
									}
								}
							}
						}})
					}
				}
			}
		}
	}

	// ---- A1t: amount lattice (transit) -------------------------------------
	for _, w := range worlds {
		wn, bw := w.name, w.bw
		jobs = append(jobs, job{"A1t-amount-lattice-transit", func(e *evaluator) {
			minSet := setU64(bigs(t.min...), around(u(bw)))
			maxSet := setU64(bigs(t.max...), around(u(bw)), bigs(maxChanMsat))
			for _, mn := range minSet {
				for _, mx := range maxSet {
					outs := setU64(bigs(0, 1, 1<<32, 1<<63-1, 1<<63, 1<<64-1),
						around(u(mn)), around(u(mx)), around(u(bw)), around(u(maxChanMsat)))
					for _, out := range outs {
						for si := 0; si < 3; si++ {
							c := Case{Kind: kindTransit, World: wn, Min: mn, Max: mx, RejectDelta: aRd, MaxExpiry: aMe,
								Out: out, OutT: expSits[si].outT, Height: aHeight}
							e.check(&c)
						}
					}
				}
			}
		}})
	}

	// ---- A2: expiry lattice (forward + transit) ----------------------------
	for _, rd := range t.rd {
		for _, me := range t.me {
			for _, h := range t.heights {
				rd, me, h := rd, me, h
				jobs = append(jobs, job{"A2-expiry-lattice", func(e *evaluator) {
					hb := u(uint64(h))
					soon := new(big.Int).Add(hb, u(uint64(rd))) // largest expiry that is too soon
					far := new(big.Int).Add(hb, u(uint64(me)))  // largest expiry that is not too far
					outTs := setU32(around(soon), bigs(soon.Uint64()+2), around(far),
						bigs(0, 1, 1<<31, 1<<32-2, 1<<32-1), around(hb))
					for _, outT := range outTs {
						// transit has no incoming side
						for _, as := range amtSits[2:] {
							c := Case{Kind: kindTransit, World: "fresh", Min: as.min, Max: as.max, RejectDelta: rd,
								MaxExpiry: me, Out: as.out, OutT: outT, Height: h}
							e.check(&c)
						}
						c := Case{Kind: kindTransit, World: "fresh", Min: 1000, RejectDelta: rd, MaxExpiry: me, Out: 1_000_000, OutT: outT, Height: h}
						e.check(&c)
						for _, d := range t.delta {
							ob := u(uint64(outT))
							inTs := setU32(around(new(big.Int).Add(ob, u(uint64(d)))), around(new(big.Int).Add(ob, u(uint64(me)))),
								around(ob), bigs(0, 1<<32-1))
							for _, inT := range inTs {
								for _, as := range amtSits {
									c := Case{Kind: kindForward, World: "fresh", Min: as.min, Max: as.max, Base: as.base, Rate: as.rate,
										Delta: d, IB: as.ib, IR: as.ir, RejectDelta: rd, MaxExpiry: me, In: as.in, Out: as.out,
										InT: inT, OutT: outT, Height: h}
									e.check(&c)
								}
							}
						}
					}
				}})
			}
		}
	}

	// ---- B1: exhaustive 6-bit amount sub-domain ----------------------------
	for _, wn := range t.b1Worlds {
		for _, rate := range t.b1Rate {
			for _, base := range t.b1Base {
				for _, ib := range t.b1IB {
					for _, ir := range t.b1IR {
						wn, rate, base, ib, ir := wn, rate, base, ib, ir
						jobs = append(jobs, job{"B1-exhaustive-6bit-amounts", func(e *evaluator) {
							for _, mn := range t.b1Min {
								for _, mx := range t.b1Max {
									for out := uint64(0); out < 64; out++ {
										for in := uint64(0); in < 64; in++ {
											c := Case{Kind: kindForward, World: wn, Min: mn, Max: mx, Base: base, Rate: rate,
												Delta: aDelta, IB: ib, IR: ir, RejectDelta: aRd, MaxExpiry: aMe, In: in, Out: out,
												InT: expSits[0].inT, OutT: expSits[0].outT, Height: aHeight}
											e.check(&c)
										}
									}
								}
							}
						}})
					}
				}
			}
		}
	}

	// ---- B2: exhaustive 6-bit expiry sub-domain, in windows ----------------
	for _, win := range t.b2Windows {
		for _, rd := range t.b2Rd {
			for _, me := range t.b2Me {
				win, rd, me := win, rd, me
				jobs = append(jobs, job{"B2-exhaustive-6bit-expiries", func(e *evaluator) {
					as := amtSits[0]
					for hh := uint32(0); hh < 16; hh++ {
						for o := uint32(0); o < 64; o++ {
							c := Case{Kind: kindTransit, World: "fresh", Min: as.min, Max: as.max, RejectDelta: rd, MaxExpiry: me,
								Out: as.out, OutT: win + o, Height: win + hh}
							e.check(&c)
							for _, d := range t.b2Delta {
								for i := uint32(0); i < 64; i++ {
									c := Case{Kind: kindForward, World: "fresh", Min: as.min, Max: as.max, Base: as.base, Rate: as.rate,
										Delta: d, IB: as.ib, IR: as.ir, RejectDelta: rd, MaxExpiry: me, In: as.in, Out: as.out,
										InT: win + i, OutT: win + o, Height: win + hh}
									e.check(&c)
								}
							}
						}
					}
				}})
			}
		}
	}

	// ---- B3: joint small domain (amounts 4 bit x expiries 3 bit) -----------
	if t.b3 {
		for _, rate := range []uint64{0, 500_000} {
			for _, ib := range []int32{-1, 0, 1} {
				for _, ir := range []int32{-500_000, 0} {
					for _, mm := range [][2]uint64{{0, 0}, {3, 12}} {
						for _, d := range []uint32{0, 2} {
							for _, rd := range []uint32{0, 1} {
								for _, me := range []uint32{2, 5} {
									rate, ib, ir, mm, d, rd, me := rate, ib, ir, mm, d, rd, me
									jobs = append(jobs, job{"B3-exhaustive-joint-small", func(e *evaluator) {
										for _, h := range []uint32{0, 2} {
											for out := uint64(0); out < 16; out++ {
												for in := uint64(0); in < 16; in++ {
													for o := uint32(0); o < 8; o++ {
														for i := uint32(0); i < 8; i++ {
															c := Case{Kind: kindForward, World: "tiny", Min: mm[0], Max: mm[1], Base: 1, Rate: rate,
																Delta: d, IB: ib, IR: ir, RejectDelta: rd, MaxExpiry: me, In: in, Out: out,
																InT: i, OutT: o, Height: h}
															e.check(&c)
														}
													}
												}
											}
										}
									}})
								}
							}
						}
					}
				}
			}
		}
	}
	return jobs
}

// ---------------------------------------------------------------------------

func TestC09(t *testing.T) {
	run := evid.Start("C09", "exploration")
	worlds := buildWorlds(t)
	samples := evid.NewSamples(24)

	if rp := os.Getenv("VERIF_REPLAY"); rp != "" {
		os.Exit(replay(t, run, worlds, rp))
	}

	tc := tier(run.Thorough())
	budget := 150 * time.Second
	if run.Thorough() {
		budget = 25 * time.Minute
	}
	if s := os.Getenv("VERIF_BUDGET_S"); s != "" {
		if n, err := strconv.Atoi(s); err == nil {
			budget = time.Duration(n) * time.Second
		}
	}
	nw := runtime.GOMAXPROCS(0)
	if nw > 16 {
		nw = 16
	}
	evs := make([]*evaluator, nw)
	var liveBW [2]uint64
	tSetup := time.Now()
	for w := range evs {
		evs[w] = newEvaluator(run, worlds, samples)
		evs[w].initLive(t)
		bw := [2]uint64{evs[w].live.bw, evs[w].live.bwAtLinkCreation}
		if w > 0 && bw != liveBW {
			t.Fatalf("live worlds differ: %v vs %v", bw, liveBW)
		}
		liveBW = bw
	}
	fmt.Printf("INFO %d live worlds built in %s\n", nw, time.Since(tSetup).Round(time.Millisecond))
	deadline := time.Now().Add(budget)
	jobs := buildJobs(tc, worlds)
	jobs = append(jobs, buildDimJobs(run.Thorough(), worlds, liveBW)...)

	// VERIF_C09_PARTS (a prefix list such as "D4,D5") restricts a run to some
	// parts; such a run is never reported as exhaustive.
	partFilter := os.Getenv("VERIF_C09_PARTS")
	if partFilter != "" {
		var kept []job
		for _, j := range jobs {
			for _, pre := range strings.Split(partFilter, ",") {
				if strings.HasPrefix(j.part, pre) {
					kept = append(kept, j)
					break
				}
			}
		}
		jobs = kept
	}

	// VERIF_SEED only rotates the order in which jobs are handed out.
	if n := len(jobs); n > 0 {
		r := ((run.Seed() % n) + n) % n
		jobs = append(jobs[r:], jobs[:r]...)
	}

	var next, skipped int64
	var wg sync.WaitGroup
	for w := 0; w < nw; w++ {
		wg.Add(1)
		go func(e *evaluator) {
			defer wg.Done()
			for {
				i := int(atomic.AddInt64(&next, 1)) - 1
				if i >= len(jobs) {
					return
				}
				if time.Now().After(deadline) {
					atomic.AddInt64(&skipped, 1)
					continue
				}
				e.part = jobs[i].part
				jobs[i].fn(e)
			}
		}(evs[w])
	}
	wg.Wait()

	// merge
	tot := newStats()
	for _, e := range evs {
		s := e.st
		tot.evals += s.evals
		tot.inDomain += s.inDomain
		tot.outDomain += s.outDomain
		tot.nondet += s.nondet
		for k, v := range s.byPart {
			tot.byPart[k] += v
		}
		for k, v := range s.byDim {
			tot.byDim[k] += v
		}
		for k, v := range s.outcomes {
			tot.outcomes[k] += v
		}
		for k, v := range s.ruleViolated {
			tot.ruleViolated[k] += v
		}
		for k, v := range s.nearThreshold {
			tot.nearThreshold[k] += v
		}
		for k := range s.classes {
			tot.classes[k] = struct{}{}
		}
		for k := range s.classesNT {
			tot.classesNT[k] = struct{}{}
		}
		for k, v := range s.outMismatch {
			tot.outMismatch[k] += v
		}
		if len(tot.outSamples) < 6 {
			tot.outSamples = append(tot.outSamples, s.outSamples...)
		}
		for k, l := range s.samples {
			for _, x := range l {
				if len(tot.samples[k]) < 3 {
					tot.samples[k] = append(tot.samples[k], x)
				}
			}
		}
	}
	var parts []string
	for k := range tot.samples {
		parts = append(parts, k)
	}
	sort.Strings(parts)
	for _, k := range parts {
		for _, x := range tot.samples[k] {
			samples.Add(x)
		}
	}
	wb := map[string]uint64{}
	for _, w := range worlds {
		wb[w.name] = w.bw
	}
	wb["live"], wb["live(at link creation)"] = liveBW[0], liveBW[1]
	cov := map[string]any{
		"evaluations":         tot.evals,
		"distinct_nontrivial": len(tot.classesNT),
		"rule": "every evaluation is one call of the real CheckHtlcForward/CheckHtlcTransit on a real channel link, compared with the statement evaluated in math/big. " +
			"Cases are cross products of de-duplicated candidate sets: (A) per policy/config point, threshold-1/threshold/threshold+1 of every comparison (fee incl. inbound fee/discount, no-loss, min, max, bandwidth, too-soon, too-far, delta, range) plus structural values; (B) exhaustive small sub-domains. " +
			"distinct_nontrivial = number of DISTINCT boundary situations met, a situation being (entry point, code outcome, for each of the 9 rules the margin class far-below/-1/0/+1/far-above), counted only if at least one rule sits at threshold-1, threshold or threshold+1; boundary_situations_total also counts those with no rule near its threshold",
		"samples":                             samples.List(),
		"boundary_situations_total":           len(tot.classes),
		"evaluations_by_part":                 tot.byPart,
		"evaluations_by_added_dimension":      tot.byDim,
		"outcome_classes":                     tot.outcomes,
		"oracle_rule_violated_counts":         tot.ruleViolated,
		"cases_at_threshold_by_rule_and_side": tot.nearThreshold,
		"in_realistic_domain":                 tot.inDomain,
		"outside_realistic_domain":            tot.outDomain,
		"outside_realistic_domain_mismatches": tot.outMismatch,
		"outside_realistic_domain_samples":    tot.outSamples,
		"world_bandwidth_msat":                wb,
		"jobs":                                len(jobs),
		"workers":                             nw,
	}
	if skipped > 0 {
		cov["exhaustive"] = false
		cov["caps_hit"] = []string{fmt.Sprintf("time budget %s: %d of %d jobs not run", budget, skipped, len(jobs))}
	}
	if partFilter != "" {
		cov["exhaustive"] = false
		cov["caps_hit"] = []string{"restricted to parts " + partFilter + " by VERIF_C09_PARTS"}
	}
	if tot.nondet > 0 {
		cov["exhaustive"] = false
		cov["nondeterminism_detected"] = tot.nondet
	}
	run.Assumptions = append(run.Assumptions,
		"realistic domain of the exact-arithmetic clause: height <= 2^31, OutgoingCltvRejectDelta/MaxOutgoingCltvExpiry/TimeLockDelta <= 2^16, amounts <= 10 BTC (maximum channel size), fee rates <= 100 % (|inbound rate| too), base fee <= 2^32-1; cases outside it are enumerated and their disagreements listed under outside_realistic_domain_mismatches, not reported as violations (the no-money-loss clause, panics and unknown failure codes are violations everywhere)",
		"MaxHTLC = 0 means no maximum is advertised; the inbound rate is capped at +-1000 % as documented in graph/db/models (unreachable inside the realistic domain)",
		"Bandwidth() of the real link (lnwallet AvailableBalance, covered by C01) is an input of the oracle; four channel states supply four bandwidth values",
		"the ChannelUpdate embedded in a failure and the informational payload fields (htlc_msat, cltv_expiry) are not judged; Switch.handlePacketAdd's use of the verdict is covered by C08",
	)
	if code := run.Finish(cov); code != 0 {
		os.Exit(code)
	}
}

// replay re-runs one recorded case without the enumerator.
func replay(t *testing.T, run *evid.Run, worlds []*world, path string) int {
	b, err := os.ReadFile(path)
	if err != nil {
		t.Fatalf("replay: %v", err)
	}
	var f struct {
		Signature string `json:"signature"`
		Replay    Case   `json:"replay"`
	}
	if err := json.Unmarshal(b, &f); err != nil {
		t.Fatalf("replay: %v", err)
	}
	c := f.Replay
	if c.Kind != kindForward && c.Kind != kindTransit {
		fmt.Printf("INFO target main: the replay artefact belongs to another target, nothing to do here\n")
		return run.Finish(map[string]any{"evaluations": 1, "distinct_nontrivial": 2, "rule": "replay (other target)", "samples": []any{path}})
	}
	samples := evid.NewSamples(1)
	e := newEvaluator(run, worlds, samples)
	e.initLive(t)
	if e.world(c.World) == nil {
		t.Fatalf("replay: unknown world %q", c.World)
	}
	fmt.Printf("INFO replaying %s (recorded signature %s)\n", path, f.Signature)
	if got := e.world(c.World).bw; got != c.Bandwidth {
		fmt.Printf("INFO world %s: bandwidth is now %d msat, recorded %d msat\n", c.World, got, c.Bandwidth)
	}
	e.verbose = true
	e.part = "replay"
	for i := 0; i < 3; i++ {
		fmt.Printf("INFO --- run %d/3 ---\n", i+1)
		cc := c
		e.check(&cc)
	}
	return run.Finish(map[string]any{"evaluations": e.st.evals, "distinct_nontrivial": 2, "rule": "replay of one recorded case, three times",
		"samples": []any{c}})
}
