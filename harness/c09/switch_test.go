// C09, target "switch": the Switch's USE of the links' verdicts (anchor mechanism
// "Switch.handlePacketAdd picks a link only if its CheckHtlcForward returned nil",
// and Switch.getLocalLink / CheckHtlcTransit for local sends).
//
// The link-level decision itself is judged by target "main" on real links. Here the
// links are the repo's mockChannelLink wrapped so that eligibility and the two
// verdicts are programmable and every consultation is recorded. One real Switch
// (temp DB, started) runs inside a testing/synctest bubble, so "nothing more
// arrives" is decided by synctest.Wait(), not by a timeout.
//
// Enumerated (exhaustive cross product): three parallel links to the next peer,
// each in {ineligible, accepts, rejects with its own distinct failure, rejects with
// TemporaryChannelFailure} x the requested link {0,1,2} x next-hop addressing
// {short channel id, blinded node id}; a fourth always-accepting link to ANOTHER
// peer is a decoy. Local sends: every link state x every link.
//
// Oracle (scenario independent):
//   - exactly one outcome per Add: delivered to exactly one link, or failed back once;
//   - delivered => the link belongs to the addressed peer, is eligible, WAS consulted
//     with exactly the packet's amounts / expiries / inbound fee / best height /
//     sender-facing scid, and answered nil;
//   - failed (scid hop) => the requested link does not accept, and the failure is the
//     requested link's own verdict (UnknownNextPeer if it is ineligible);
//   - failed (node-id hop) => no link of the peer accepts; the failure is
//     UnknownNextPeer (documented: no per-channel data is revealed for a node-id hop)
//     or a consulted link's verdict;
//   - local send: error <=> the first-hop link is ineligible or its transit check
//     failed, and the error is that verdict.
package htlcswitch

import (
	"crypto/sha256"
	"encoding/json"
	"fmt"
	"os"
	"sort"
	"strings"
	"sync"
	"testing"
	"testing/synctest"

	"github.com/lightningnetwork/lnd/fn/v2"
	"github.com/lightningnetwork/lnd/graph/db/models"
	"github.com/lightningnetwork/lnd/htlcswitch/hop"
	"github.com/lightningnetwork/lnd/lnpeer"
	"github.com/lightningnetwork/lnd/lnwire"
	"github.com/lightningnetwork/lnd/verifmc/evid"
)

type c09Args struct {
	In, Out   uint64
	InT, OutT uint32
	IB, IR    int32
	Height    uint32
	Scid      uint64
}

type c09Link struct {
	*mockChannelLink
	name string

	mu           sync.Mutex
	elig         bool
	fwd, transit *LinkError
	fwdCalls     []c09Args
	transitCalls []c09Args
}

func (l *c09Link) EligibleToForward() bool {
	l.mu.Lock()
	defer l.mu.Unlock()
	return l.elig
}

func (l *c09Link) CheckHtlcForward(_ [32]byte, in, out lnwire.MilliSatoshi, inT, outT uint32,
	ib models.InboundFee, h uint32, scid lnwire.ShortChannelID, _ lnwire.CustomRecords) *LinkError {

	l.mu.Lock()
	defer l.mu.Unlock()
	l.fwdCalls = append(l.fwdCalls, c09Args{uint64(in), uint64(out), inT, outT, ib.Base, ib.Rate, h, scid.ToUint64()})
	return l.fwd
}

func (l *c09Link) CheckHtlcTransit(_ [32]byte, amt lnwire.MilliSatoshi, timeout, h uint32,
	_ lnwire.CustomRecords) *LinkError {

	l.mu.Lock()
	defer l.mu.Unlock()
	l.transitCalls = append(l.transitCalls, c09Args{Out: uint64(amt), OutT: timeout, Height: h})
	return l.transit
}

// c09Peer: the switch asks a link's peer only for its public key.
type c09Peer struct {
	lnpeer.Peer
	id [33]byte
}

func (p *c09Peer) PubKey() [33]byte { return p.id }

// c09Scenario is one enumerated case and the replay artefact.
type c09Scenario struct {
	Kind   string   `json:"kind"` // always "switch"
	Mode   string   `json:"mode"` // scid | node | local
	Req    int      `json:"requested_link"`
	States []string `json:"link_states"` // per link of the next peer: I | A | R | T
}

func (sc c09Scenario) String() string {
	return fmt.Sprintf("%s req=%d states=%s", sc.Mode, sc.Req, strings.Join(sc.States, ""))
}

type c09World struct {
	t     *testing.T
	s     *Switch
	alice *c09Link
	bobs  []*c09Link
	carol *c09Link
	all   []*c09Link
	bob   [33]byte
	nextH uint64
	upd   lnwire.ChannelUpdate1
	log   func(string, ...any)
}

// the packet's fields: all distinct and non-zero
const (
	c09In, c09Out   = 1_000_777, 1_000_000
	c09InT, c09OutT = 800_140, 800_100
	c09IB, c09IR    = -5, 7
	c09OrigScid     = 0x0f0f0f000001
)

func newC09World(t *testing.T, nBob int) *c09World {
	w := &c09World{t: t, log: func(string, ...any) {}}
	mk := func(name string) *c09Peer {
		p := &c09Peer{}
		h := sha256.Sum256([]byte(name))
		copy(p.id[:], h[:])
		return p
	}
	ap, bp, cp := mk("alice"), mk("bob"), mk("carol")
	w.bob = bp.PubKey()
	s, err := initSwitchWithTempDB(t, testStartingHeight)
	if err != nil {
		t.Fatalf("switch: %v", err)
	}
	if err := s.Start(); err != nil {
		t.Fatalf("switch start: %v", err)
	}
	w.s = s
	n := byte(0)
	link := func(name string, p *c09Peer) *c09Link {
		n++
		var cid lnwire.ChannelID
		cid[0] = n
		scid := lnwire.NewShortChanIDFromInt(uint64(n) * 1_000_003)
		l := &c09Link{name: name, elig: true,
			mockChannelLink: newMockChannelLink(s, cid, scid, emptyScid, p, true, false, false, false)}
		if err := s.AddLink(l); err != nil {
			t.Fatalf("AddLink: %v", err)
		}
		w.all = append(w.all, l)
		return l
	}
	w.alice = link("alice", ap)
	for i := 0; i < nBob; i++ {
		w.bobs = append(w.bobs, link(fmt.Sprintf("bob%d", i), bp))
	}
	w.carol = link("carol", cp)
	return w
}

// ownFailure: a distinct BOLT-4 failure per link index, so that the oracle can
// tell WHOSE verdict was handed back.
func (w *c09World) ownFailure(i int) *LinkError {
	switch i % 4 {
	case 0:
		return NewLinkError(lnwire.NewFeeInsufficient(c09Out, w.upd))
	case 1:
		return NewLinkError(lnwire.NewIncorrectCltvExpiry(c09InT, w.upd))
	case 2:
		return NewLinkError(lnwire.NewExpiryTooSoon(w.upd))
	}
	return NewLinkError(lnwire.NewAmountBelowMinimum(c09Out, w.upd))
}

func (w *c09World) setState(l *c09Link, i int, st string) {
	l.mu.Lock()
	defer l.mu.Unlock()
	l.fwdCalls, l.transitCalls = nil, nil
	l.elig, l.fwd, l.transit = true, nil, nil
	switch st {
	case "I":
		l.elig = false
	case "A":
	case "R":
		l.fwd, l.transit = w.ownFailure(i), w.ownFailure(i)
	case "T":
		e := NewDetailedLinkError(lnwire.NewTemporaryChannelFailure(&w.upd), OutgoingFailureInsufficientBalance)
		l.fwd, l.transit = e, e
	default:
		panic("unknown link state " + st)
	}
}

type c09Arrival struct {
	link *c09Link
	pkt  *htlcPacket
}

// drain collects everything the switch handed to any link, at quiescence.
func (w *c09World) drain() []c09Arrival {
	var got []c09Arrival
	for {
		synctest.Wait()
		n := len(got)
		for _, l := range w.all {
			select {
			case p := <-l.packets:
				got = append(got, c09Arrival{l, p})
			default:
			}
		}
		if len(got) == n {
			return got
		}
	}
}

func c09Code(le *LinkError) string {
	if le == nil {
		return "nil"
	}
	m := le.WireMessage()
	if m == nil {
		return "nil-wire-message"
	}
	return m.Code().String()
}

// run executes one scenario on the live switch and judges it. report is called
// for every disagreement with the oracle.
func (w *c09World) run(sc c09Scenario, report func(sig, what string)) (outcome string) {
	defer func() {
		if r := recover(); r != nil {
			report("hard:panic:switch:"+sc.Mode, fmt.Sprintf("the switch panicked: %v", r))
			outcome = "panic"
		}
	}()
	for i, l := range w.bobs {
		w.setState(l, i, sc.States[i])
	}
	w.setState(w.alice, 0, "A")
	w.setState(w.carol, 0, "A")
	w.nextH++
	id := w.nextH
	hash := sha256.Sum256([]byte(fmt.Sprint("c09-", id)))
	htlc := &lnwire.UpdateAddHTLC{PaymentHash: hash, Amount: c09Out, Expiry: c09OutT}
	// the sender-facing scid handed to the links: for a channel-addressed hop the
	// switch itself records the requested scid (getLinkByMapping), for a node-id
	// hop it passes on what the packet carries
	want := c09Args{c09In, c09Out, c09InT, c09OutT, c09IB, c09IR, testStartingHeight, c09OrigScid}
	if sc.Mode == "scid" {
		want.Scid = w.bobs[sc.Req].ShortChanID().ToUint64()
	}

	argCheck := func() {
		for _, l := range w.all {
			l.mu.Lock()
			for _, c := range l.fwdCalls {
				if c != want {
					report("switch:check-arguments-differ:forward",
						fmt.Sprintf("%s: link %s was consulted with %+v, the packet says %+v", sc, l.name, c, want))
				}
			}
			for _, c := range l.transitCalls {
				if (c != c09Args{Out: c09Out, OutT: c09OutT, Height: testStartingHeight}) {
					report("switch:check-arguments-differ:transit",
						fmt.Sprintf("%s: link %s was consulted with %+v for a local send of %d msat expiring at %d", sc, l.name, c, c09Out, c09OutT))
				}
			}
			l.mu.Unlock()
		}
	}
	cleanup := func(arr []c09Arrival) {
		for _, a := range arr {
			a.link.mailBox.AckPacket(a.pkt.inKey())
			_ = w.s.circuits.DeleteCircuits(a.pkt.inKey())
		}
	}

	if sc.Mode == "local" {
		l := w.bobs[sc.Req]
		w.log("SendHTLC over %s (state %s)", l.name, sc.States[sc.Req])
		err := w.s.SendHTLC(l.ShortChanID(), id, htlc)
		arr := w.drain()
		defer cleanup(arr)
		argCheck()
		st := sc.States[sc.Req]
		if err == nil {
			outcome = "sent"
			w.log("accepted, %d packet(s) handed to links", len(arr))
			if st != "A" {
				report("accept-mismatch:switch:local:link-state="+st,
					fmt.Sprintf("%s: a local HTLC was sent over a link that is ineligible or whose transit check failed", sc))
			}
			if len(arr) != 1 || arr[0].link != l {
				report("hard:switch:local:not-delivered-to-first-hop", fmt.Sprintf("%s: %d packets delivered", sc, len(arr)))
			}
			return
		}
		le, ok := err.(*LinkError)
		code := "non-link-error"
		if ok {
			code = c09Code(le)
		}
		outcome = "refused:" + code
		w.log("refused: %v", err)
		if len(arr) != 0 {
			report("hard:switch:local:refused-but-delivered", fmt.Sprintf("%s: refused with %v yet %d packets were delivered", sc, err, len(arr)))
		}
		switch st {
		case "A":
			report("reject-mismatch:switch:local:code="+code, fmt.Sprintf("%s: refused (%v) although the link is eligible and its transit check passed", sc, err))
		case "I":
			// not a verdict of the statement's rules; any failure will do
		default:
			l.mu.Lock()
			exp := c09Code(l.transit)
			l.mu.Unlock()
			if code != exp {
				report("wrong-failure:switch:local:code="+code, fmt.Sprintf("%s: refused with %s, the link's verdict was %s", sc, code, exp))
			}
		}
		return
	}

	pkt := &htlcPacket{
		incomingChanID: w.alice.ShortChanID(), incomingHTLCID: id,
		htlc: htlc, obfuscator: NewMockObfuscator(),
		incomingAmount: c09In, amount: c09Out, incomingTimeout: c09InT, outgoingTimeout: c09OutT,
		inboundFee:             models.InboundFee{Base: c09IB, Rate: c09IR},
		originalOutgoingChanID: lnwire.NewShortChanIDFromInt(c09OrigScid),
	}
	if sc.Mode == "node" {
		pkt.outgoingChanID = hop.Exit
		pkt.outgoingHop = fn.NewRight[lnwire.ShortChannelID, [33]byte](w.bob)
	} else {
		pkt.outgoingChanID = w.bobs[sc.Req].ShortChanID()
		pkt.outgoingHop = fn.NewLeft[lnwire.ShortChannelID, [33]byte](pkt.outgoingChanID)
	}
	w.log("ForwardPackets: add %d from alice, next hop %s", id, sc.Mode)
	if err := w.s.ForwardPackets(nil, pkt); err != nil {
		report("hard:switch:forward-packets-error", fmt.Sprintf("%s: %v", sc, err))
	}
	arr := w.drain()
	defer cleanup(arr)
	argCheck()

	anyAccepts := false
	for _, st := range sc.States {
		anyAccepts = anyAccepts || st == "A"
	}
	if len(arr) != 1 {
		outcome = fmt.Sprintf("%d-outcomes", len(arr))
		report("hard:switch:outcome-count="+fmt.Sprint(len(arr)), fmt.Sprintf("%s: the Add produced %d outcomes (wanted exactly one delivery or one failure)", sc, len(arr)))
		return
	}
	a := arr[0]
	if _, isAdd := a.pkt.htlc.(*lnwire.UpdateAddHTLC); isAdd {
		outcome = "delivered"
		w.log("delivered to %s", a.link.name)
		idx := -1
		for i, l := range w.bobs {
			if l == a.link {
				idx = i
			}
		}
		if idx < 0 {
			report("accept-mismatch:switch:delivered-to-foreign-link", fmt.Sprintf("%s: the Add went to %s, which is not a link of the addressed peer", sc, a.link.name))
			return
		}
		if st := sc.States[idx]; st != "A" {
			report("accept-mismatch:switch:delivered-to-link-in-state="+st,
				fmt.Sprintf("%s: the Add went to %s, which is ineligible or whose CheckHtlcForward did not return nil", sc, a.link.name))
		}
		a.link.mu.Lock()
		consulted := len(a.link.fwdCalls)
		a.link.mu.Unlock()
		if consulted == 0 {
			report("accept-mismatch:switch:delivered-without-check", fmt.Sprintf("%s: the Add went to %s without its CheckHtlcForward being consulted", sc, a.link.name))
		}
		return
	}
	// failed back
	if a.link != w.alice {
		outcome = "failure-to-wrong-link"
		report("hard:switch:failure-sent-to-"+a.link.name, fmt.Sprintf("%s: the failure went to %s", sc, a.link.name))
		return
	}
	code := c09Code(a.pkt.linkFailure)
	outcome = "failed:" + code
	w.log("failed back with %s", code)
	if sc.Mode == "scid" {
		st := sc.States[sc.Req]
		if st == "A" {
			report("reject-mismatch:switch:requested-link-accepts:code="+code,
				fmt.Sprintf("%s: failed with %s although the requested link is eligible and its check passed", sc, code))
			return
		}
		exp := "UnknownNextPeer"
		if st != "I" {
			exp = c09Code(w.bobs[sc.Req].fwd)
		}
		if code != exp {
			report("wrong-failure:switch:code="+code+":requested-link-state="+st,
				fmt.Sprintf("%s: failed with %s, the requested link's verdict is %s", sc, code, exp))
		}
		return
	}
	if anyAccepts {
		report("reject-mismatch:switch:node-hop:a-link-accepts:code="+code,
			fmt.Sprintf("%s: failed with %s although a link of the addressed peer is eligible and its check passed", sc, code))
		return
	}
	ok := code == "UnknownNextPeer"
	for i, st := range sc.States {
		if st != "I" && st != "A" && c09Code(w.bobs[i].fwd) == code {
			ok = true
		}
	}
	if !ok {
		report("wrong-failure:switch:node-hop:code="+code, fmt.Sprintf("%s: failed with %s, which no consulted link answered", sc, code))
	}
	return
}

func c09Scenarios(nBob int, alphabet []string) []c09Scenario {
	var states [][]string
	var rec func(cur []string)
	rec = func(cur []string) {
		if len(cur) == nBob {
			states = append(states, append([]string(nil), cur...))
			return
		}
		for _, a := range alphabet {
			rec(append(cur, a))
		}
	}
	rec(nil)
	var out []c09Scenario
	for _, st := range states {
		for r := 0; r < nBob; r++ {
			out = append(out, c09Scenario{"switch", "scid", r, st})
			out = append(out, c09Scenario{"switch", "local", r, st})
		}
		out = append(out, c09Scenario{"switch", "node", 0, st})
	}
	return out
}

func TestC09Switch(t *testing.T) {
	run := evid.Start("C09", "exploration")
	if rp := os.Getenv("VERIF_REPLAY"); rp != "" {
		b, err := os.ReadFile(rp)
		if err != nil {
			t.Fatalf("replay: %v", err)
		}
		var f struct {
			Signature string      `json:"signature"`
			Replay    c09Scenario `json:"replay"`
		}
		_ = json.Unmarshal(b, &f)
		if f.Replay.Kind != "switch" {
			fmt.Printf("INFO target switch: the replay artefact belongs to target main, nothing to do here\n")
			os.Exit(run.Finish(map[string]any{"evaluations": 1, "distinct_nontrivial": 2, "rule": "replay (other target)", "samples": []any{rp}}))
		}
		synctest.Test(t, func(t *testing.T) {
			w := newC09World(t, len(f.Replay.States))
			defer w.s.Stop()
			w.log = func(fm string, a ...any) { fmt.Printf("INFO "+fm+"\n", a...) }
			fmt.Printf("INFO replaying %s (recorded signature %s): %s\n", rp, f.Signature, f.Replay)
			for i := 0; i < 3; i++ {
				fmt.Printf("INFO --- run %d/3 ---\n", i+1)
				clean := true
				o := w.run(f.Replay, func(sig, what string) {
					clean = false
					fmt.Printf("INFO verdict: %s\n", what)
					run.Violation(sig, what, f.Replay)
				})
				fmt.Printf("INFO outcome: %s\n", o)
				if clean {
					fmt.Printf("INFO verdict: agrees with the statement\n")
				}
			}
		})
		os.Exit(run.Finish(map[string]any{"evaluations": 3, "distinct_nontrivial": 2, "rule": "replay of one switch scenario, three times", "samples": []any{f.Replay}}))
	}

	nBob := 3
	if run.Thorough() {
		nBob = 4
	}
	scs := c09Scenarios(nBob, []string{"I", "A", "R", "T"})
	outcomes := map[string]int{}
	classes := map[string]bool{}
	nontrivial := map[string]bool{}
	samples := evid.NewSamples(6)
	nondet := 0
	synctest.Test(t, func(t *testing.T) {
		w := newC09World(t, nBob)
		defer w.s.Stop()
		for _, sc := range scs {
			sc := sc
			type rep struct{ sig, what string }
			var reps []rep
			o := w.run(sc, func(sig, what string) { reps = append(reps, rep{sig, what}) })
			outcomes[sc.Mode+":"+o]++
			// class: addressing, state of the requested link, multiset of states, outcome
			ms := append([]string(nil), sc.States...)
			sort.Strings(ms)
			req := sc.States[sc.Req]
			if sc.Mode == "node" {
				req = "-"
			}
			cl := sc.Mode + "/" + req + "/" + strings.Join(ms, "") + "/" + o
			if !classes[cl] {
				classes[cl] = true
				// non-trivial: the links of the peer disagree with each other
				if ms[0] != ms[len(ms)-1] {
					nontrivial[cl] = true
					samples.Add(map[string]any{"scenario": sc, "outcome": o})
				}
			}
			if len(reps) == 0 {
				continue
			}
			// determinism gate: the same scenario again must be judged the same way
			// (which of several accepting links is picked is the switch's random
			// choice and not part of the judgement)
			var again []rep
			w.run(sc, func(sig, what string) { again = append(again, rep{sig, what}) })
			if len(again) == 0 {
				nondet++
				continue
			}
			for _, r := range reps {
				run.Violation(r.sig, r.what, sc)
			}
		}
	})
	cov := map[string]any{
		"evaluations":         len(scs),
		"distinct_nontrivial": len(nontrivial),
		"rule": "target switch: an evaluation = one Add pushed through a real, started Switch (ForwardPackets / SendHTLC) with " + fmt.Sprint(nBob) +
			" programmable links to the next peer, judged at synctest quiescence; distinct_nontrivial = distinct (addressing, state of the requested link, multiset of link states, outcome) in which the peer's links do not all behave alike",
		"samples":                samples.List(),
		"switch_scenarios":       len(scs),
		"switch_outcome_classes": outcomes,
		"switch_classes_total":   len(classes),
	}
	if nondet > 0 {
		cov["exhaustive"] = false
		cov["switch_nondeterminism_detected"] = nondet
	}
	run.Assumptions = append(run.Assumptions,
		"target switch: links are the repo's mockChannelLink with programmable eligibility/verdicts (the verdicts themselves are judged on real links by target main); which of several accepting links the switch picks is random by design and not judged; falling back to another accepting link when the requested one refuses (non-strict forwarding) is allowed but not demanded; for a blinded node-id next hop UnknownNextPeer is accepted as the failure (documented: no per-channel data is revealed)")
	if code := run.Finish(cov); code != 0 {
		os.Exit(code)
	}
}
