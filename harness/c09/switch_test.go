// C09, target "switch": the Switch's USE of the links' verdicts (anchor mechanism
// "Switch.handlePacketAdd picks a link only if its CheckHtlcForward returned nil",
// and Switch.getLocalLink / CheckHtlcTransit for local sends).
//
// The link-level decision itself is judged by target "main" on real links. Here the
// links are the repo's mockChannelLink wrapped so that eligibility and the two
// verdicts are programmable and every consultation is recorded. One real Switch
// (temp DB, started) runs inside a testing/synctest bubble, so "nothing more
// arrives" is decided by synctest.Wait(), not by a timeout.
//
// Enumerated (exhaustive cross product): three parallel links to the next peer,
// each in {ineligible, accepts, rejects with its own distinct failure, rejects with
// TemporaryChannelFailure} x the requested link {0,1,2} x next-hop addressing
// {short channel id, blinded node id}; a fourth always-accepting link to ANOTHER
// peer is a decoy. Local sends: every link state x every link.
//
// Addressing kinds (axis audit): the same enumeration is repeated in worlds whose links
// to the next peer are option-scid-alias channels (public / unadvertised) and zero-conf
// channels (confirmed / unconfirmed), with the sender (or the local router) naming the
// channel by its ALIAS or by its CONFIRMED scid. The switch then finds the link through
// its alias maps (getLinkByMapping / getLocalLink), rewrites the packet's outgoing scid
// and must still hand back the REQUESTED link's verdict. Only documented special case:
// an unadvertised channel named by its confirmed scid is not found (UnknownNextPeer).
//
// Interceptor (axis audit): mode "intercept" sends the Add through a real, started
// InterceptableSwitch with a registered interceptor, which holds it and then resumes it
// unchanged or with a modified incoming amount / outgoing amount / both (ResumeModified).
// The HTLC is then judged with the amounts the interceptor substituted: the links must be
// consulted with exactly those, and (all forwarding modes) the update_add_htlc handed to
// the outgoing link must carry the amount and expiry the check was consulted with.
//
// Oracle (scenario independent):
//   - exactly one outcome per Add: delivered to exactly one link, or failed back once;
//   - delivered => the link belongs to the addressed peer, is eligible, WAS consulted
//     with exactly the packet's amounts / expiries / inbound fee / best height /
//     sender-facing scid, and answered nil;
//   - failed (scid hop) => the requested link does not accept, and the failure is the
//     requested link's own verdict (UnknownNextPeer if it is ineligible);
//   - failed (node-id hop) => no link of the peer accepts; the failure is
//     UnknownNextPeer (documented: no per-channel data is revealed for a node-id hop)
//     or a consulted link's verdict;
//   - local send: error <=> the first-hop link is ineligible or its transit check
//     failed, and the error is that verdict.
package htlcswitch

import (
	"crypto/sha256"
	"encoding/json"
	"fmt"
	"os"
	"sort"
	"strings"
	"sync"
	"testing"
	"testing/synctest"

	"github.com/lightningnetwork/lnd/chainntnfs"
	"github.com/lightningnetwork/lnd/fn/v2"
	"github.com/lightningnetwork/lnd/graph/db/models"
	"github.com/lightningnetwork/lnd/htlcswitch/hop"
	"github.com/lightningnetwork/lnd/lnpeer"
	"github.com/lightningnetwork/lnd/lntest/mock"
	"github.com/lightningnetwork/lnd/lnwire"
	"github.com/lightningnetwork/lnd/verifmc/evid"
)

type c09Args struct {
	In, Out   uint64
	InT, OutT uint32
	IB, IR    int32
	Height    uint32
	Scid      uint64
}

type c09Link struct {
	*mockChannelLink
	name string

	mu           sync.Mutex
	elig         bool
	fwd, transit *LinkError
	fwdCalls     []c09Args
	transitCalls []c09Args
}

func (l *c09Link) EligibleToForward() bool {
	l.mu.Lock()
	defer l.mu.Unlock()
	return l.elig
}

func (l *c09Link) CheckHtlcForward(_ [32]byte, in, out lnwire.MilliSatoshi, inT, outT uint32,
	ib models.InboundFee, h uint32, scid lnwire.ShortChannelID, _ lnwire.CustomRecords) *LinkError {

	l.mu.Lock()
	defer l.mu.Unlock()
	l.fwdCalls = append(l.fwdCalls, c09Args{uint64(in), uint64(out), inT, outT, ib.Base, ib.Rate, h, scid.ToUint64()})
	return l.fwd
}

func (l *c09Link) CheckHtlcTransit(_ [32]byte, amt lnwire.MilliSatoshi, timeout, h uint32,
	_ lnwire.CustomRecords) *LinkError {

	l.mu.Lock()
	defer l.mu.Unlock()
	l.transitCalls = append(l.transitCalls, c09Args{Out: uint64(amt), OutT: timeout, Height: h})
	return l.transit
}

// c09Peer: the switch asks a link's peer only for its public key.
type c09Peer struct {
	lnpeer.Peer
	id [33]byte
}

func (p *c09Peer) PubKey() [33]byte { return p.id }

// c09Scenario is one enumerated case and the replay artefact.
type c09Scenario struct {
	Kind   string   `json:"kind"` // always "switch"
	Mode   string   `json:"mode"` // scid | node | local
	Req    int      `json:"requested_link"`
	States []string `json:"link_states"` // per link of the next peer: I | A | R | T
	// Kinds: per link of the next peer P plain | F option-scid-alias, public | U
	// option-scid-alias, unadvertised | Z zero-conf, confirmed | z zero-conf,
	// unconfirmed ("" = all plain). Via: how the requested link is named: "" its
	// own scid | "alias" | "confirmed".
	Kinds string `json:"link_kinds,omitempty"`
	Via   string `json:"via,omitempty"`
	// Res (mode "intercept"): what the interceptor does with the held Add:
	// resume | in | out | both | out-above-in
	Res string `json:"interceptor_resolution,omitempty"`
}

func (sc c09Scenario) String() string {
	s := fmt.Sprintf("%s req=%d states=%s", sc.Mode, sc.Req, strings.Join(sc.States, ""))
	if sc.Kinds != "" {
		s += fmt.Sprintf(" kinds=%s via=%s", sc.Kinds, sc.Via)
	}
	if sc.Res != "" {
		s += " interceptor=" + sc.Res
	}
	return s
}

func (sc c09Scenario) reqKind() byte {
	if sc.Kinds == "" {
		return 'P'
	}
	return sc.Kinds[sc.Req]
}

// c09Vias: the ways a link of a kind can be named.
func c09Vias(kind byte) []string {
	switch kind {
	case 'F', 'U', 'Z':
		return []string{"alias", "confirmed"}
	case 'z':
		return []string{"alias"}
	}
	return []string{""}
}

type c09World struct {
	t      *testing.T
	s      *Switch
	alice  *c09Link
	bobs   []*c09Link
	carol  *c09Link
	all    []*c09Link
	bob    [33]byte
	is     *InterceptableSwitch
	heldMu sync.Mutex
	held   []InterceptedPacket
	kinds  string
	alias  []lnwire.ShortChannelID // per bob link: its alias (zero value: none)
	conf   []lnwire.ShortChannelID // per bob link: its confirmed scid (zero value: none)
	nextH  uint64
	upd    lnwire.ChannelUpdate1
	log    func(string, ...any)
}

// the packet's fields: all distinct and non-zero
const (
	c09In, c09Out   = 1_000_777, 1_000_000
	c09InT, c09OutT = 800_140, 800_100
	c09IB, c09IR    = -5, 7
	c09OrigScid     = 0x0f0f0f000001
)

func newC09World(t *testing.T, nBob int, kinds string) *c09World {
	w := &c09World{t: t, kinds: kinds, log: func(string, ...any) {}}
	if kinds != "" && len(kinds) != nBob {
		t.Fatalf("link kinds %q for %d links", kinds, nBob)
	}
	mk := func(name string) *c09Peer {
		p := &c09Peer{}
		h := sha256.Sum256([]byte(name))
		copy(p.id[:], h[:])
		return p
	}
	ap, bp, cp := mk("alice"), mk("bob"), mk("carol")
	w.bob = bp.PubKey()
	s, err := initSwitchWithTempDB(t, testStartingHeight)
	if err != nil {
		t.Fatalf("switch: %v", err)
	}
	if err := s.Start(); err != nil {
		t.Fatalf("switch start: %v", err)
	}
	w.s = s
	// the interceptable switch in front of it (mode "intercept")
	notifier := &mock.ChainNotifier{EpochChan: make(chan *chainntnfs.BlockEpoch, 1)}
	notifier.EpochChan <- &chainntnfs.BlockEpoch{Height: testStartingHeight}
	is, err := NewInterceptableSwitch(&InterceptableSwitchConfig{Switch: s, CltvRejectDelta: 10, CltvInterceptDelta: 13, Notifier: notifier})
	if err != nil {
		t.Fatalf("interceptable switch: %v", err)
	}
	if err := is.Start(); err != nil {
		t.Fatalf("interceptable switch start: %v", err)
	}
	is.SetInterceptor(func(p InterceptedPacket) error {
		w.heldMu.Lock()
		w.held = append(w.held, p)
		w.heldMu.Unlock()
		return nil
	})
	w.is = is
	n := byte(0)
	link := func(name string, p *c09Peer, kind byte) *c09Link {
		n++
		var cid lnwire.ChannelID
		cid[0] = n
		conf := lnwire.NewShortChanIDFromInt(uint64(n) * 1_000_003)
		// inside the alias range of the test switch (mock.go isAlias)
		alias := lnwire.ShortChannelID{BlockHeight: 16_000_000 + uint32(n), TxIndex: uint32(n), TxPosition: 1}
		var ml *mockChannelLink
		var la, lc lnwire.ShortChannelID
		switch kind {
		case 'P':
			ml = newMockChannelLink(s, cid, conf, emptyScid, p, true, false, false, false)
		case 'F', 'U':
			ml = newMockChannelLink(s, cid, conf, emptyScid, p, true, kind == 'U', false, true)
			ml.addAlias(alias)
			la, lc = alias, conf
		case 'Z': // zero-conf, confirmed: the link's scid is its alias, the real scid is known
			ml = newMockChannelLink(s, cid, alias, conf, p, true, false, true, true)
			la, lc = alias, conf
		case 'z': // zero-conf, not yet confirmed
			ml = newMockChannelLink(s, cid, alias, emptyScid, p, true, false, true, true)
			la = alias
		default:
			t.Fatalf("unknown link kind %q", kind)
		}
		l := &c09Link{name: name, elig: true, mockChannelLink: ml}
		if err := s.AddLink(l); err != nil {
			t.Fatalf("AddLink: %v", err)
		}
		w.all = append(w.all, l)
		if p == bp {
			w.alias, w.conf = append(w.alias, la), append(w.conf, lc)
		}
		return l
	}
	w.alice = link("alice", ap, 'P')
	for i := 0; i < nBob; i++ {
		k := byte('P')
		if kinds != "" {
			k = kinds[i]
		}
		w.bobs = append(w.bobs, link(fmt.Sprintf("bob%d", i), bp, k))
	}
	w.carol = link("carol", cp, 'P')
	return w
}

func (w *c09World) stop() {
	_ = w.is.Stop()
	_ = w.s.Stop()
}

// named returns the scid under which the scenario names the requested link.
func (w *c09World) named(sc c09Scenario) lnwire.ShortChannelID {
	switch sc.Via {
	case "alias":
		return w.alias[sc.Req]
	case "confirmed":
		return w.conf[sc.Req]
	}
	return w.bobs[sc.Req].ShortChanID()
}

// ownFailure: a distinct BOLT-4 failure per link index, so that the oracle can
// tell WHOSE verdict was handed back.
func (w *c09World) ownFailure(i int) *LinkError {
	switch i % 4 {
	case 0:
		return NewLinkError(lnwire.NewFeeInsufficient(c09Out, w.upd))
	case 1:
		return NewLinkError(lnwire.NewIncorrectCltvExpiry(c09InT, w.upd))
	case 2:
		return NewLinkError(lnwire.NewExpiryTooSoon(w.upd))
	}
	return NewLinkError(lnwire.NewAmountBelowMinimum(c09Out, w.upd))
}

func (w *c09World) setState(l *c09Link, i int, st string) {
	l.mu.Lock()
	defer l.mu.Unlock()
	l.fwdCalls, l.transitCalls = nil, nil
	l.elig, l.fwd, l.transit = true, nil, nil
	switch st {
	case "I":
		l.elig = false
	case "A":
	case "R":
		l.fwd, l.transit = w.ownFailure(i), w.ownFailure(i)
	case "T":
		e := NewDetailedLinkError(lnwire.NewTemporaryChannelFailure(&w.upd), OutgoingFailureInsufficientBalance)
		l.fwd, l.transit = e, e
	default:
		panic("unknown link state " + st)
	}
}

type c09Arrival struct {
	link *c09Link
	pkt  *htlcPacket
}

// drain collects everything the switch handed to any link, at quiescence.
func (w *c09World) drain() []c09Arrival {
	var got []c09Arrival
	for {
		synctest.Wait()
		n := len(got)
		for _, l := range w.all {
			select {
			case p := <-l.packets:
				got = append(got, c09Arrival{l, p})
			default:
			}
		}
		if len(got) == n {
			return got
		}
	}
}

func c09Code(le *LinkError) string {
	if le == nil {
		return "nil"
	}
	m := le.WireMessage()
	if m == nil {
		return "nil-wire-message"
	}
	return m.Code().String()
}

// run executes one scenario on the live switch and judges it. report is called
// for every disagreement with the oracle.
func (w *c09World) run(sc c09Scenario, report func(sig, what string)) (outcome string) {
	defer func() {
		if r := recover(); r != nil {
			report("hard:panic:switch:"+sc.Mode, fmt.Sprintf("the switch panicked: %v", r))
			outcome = "panic"
		}
	}()
	if sc.Kinds != "" {
		inner := report
		addr := "|link-kinds=" + sc.Kinds
		if sc.Mode != "node" {
			addr += "|named=" + string(sc.reqKind()) + "/" + sc.Via
		}
		report = func(sig, what string) { inner(sig+addr, what) }
	}
	for i, l := range w.bobs {
		w.setState(l, i, sc.States[i])
	}
	w.setState(w.alice, 0, "A")
	w.setState(w.carol, 0, "A")
	w.nextH++
	id := w.nextH
	hash := sha256.Sum256([]byte(fmt.Sprint("c09-", id)))
	htlc := &lnwire.UpdateAddHTLC{PaymentHash: hash, Amount: c09Out, Expiry: c09OutT}
	// the sender-facing scid handed to the links: for a channel-addressed hop the
	// switch itself records the requested scid (getLinkByMapping), for a node-id
	// hop it passes on what the packet carries
	want := c09Args{c09In, c09Out, c09InT, c09OutT, c09IB, c09IR, testStartingHeight, c09OrigScid}
	named := w.named(sc)
	if sc.Mode != "node" && named == emptyScid {
		panic(fmt.Sprintf("%s: link %d has no %s scid", sc, sc.Req, sc.Via))
	}
	if sc.Mode == "scid" || sc.Mode == "intercept" {
		want.Scid = named.ToUint64()
	}
	// documented: an unadvertised option-scid-alias channel is not found under its
	// confirmed scid when a remote sender names it
	hidden := sc.Mode == "scid" && sc.reqKind() == 'U' && sc.Via == "confirmed"

	argCheck := func() {
		for _, l := range w.all {
			l.mu.Lock()
			for _, c := range l.fwdCalls {
				if c != want {
					report("switch:check-arguments-differ:forward",
						fmt.Sprintf("%s: link %s was consulted with %+v, the packet says %+v", sc, l.name, c, want))
				}
			}
			for _, c := range l.transitCalls {
				if (c != c09Args{Out: c09Out, OutT: c09OutT, Height: testStartingHeight}) {
					report("switch:check-arguments-differ:transit",
						fmt.Sprintf("%s: link %s was consulted with %+v for a local send of %d msat expiring at %d", sc, l.name, c, c09Out, c09OutT))
				}
			}
			l.mu.Unlock()
		}
	}
	cleanup := func(arr []c09Arrival) {
		for _, a := range arr {
			a.link.mailBox.AckPacket(a.pkt.inKey())
			_ = w.s.circuits.DeleteCircuits(a.pkt.inKey())
		}
	}

	if sc.Mode == "local" {
		l := w.bobs[sc.Req]
		w.log("SendHTLC over %s (state %s) named %v", l.name, sc.States[sc.Req], named)
		err := w.s.SendHTLC(named, id, htlc)
		arr := w.drain()
		defer cleanup(arr)
		argCheck()
		st := sc.States[sc.Req]
		if err == nil {
			outcome = "sent"
			w.log("accepted, %d packet(s) handed to links", len(arr))
			if st != "A" {
				report("accept-mismatch:switch:local:link-state="+st,
					fmt.Sprintf("%s: a local HTLC was sent over a link that is ineligible or whose transit check failed", sc))
			}
			if len(arr) != 1 || arr[0].link != l {
				report("hard:switch:local:not-delivered-to-first-hop", fmt.Sprintf("%s: %d packets delivered", sc, len(arr)))
			}
			return
		}
		le, ok := err.(*LinkError)
		code := "non-link-error"
		if ok {
			code = c09Code(le)
		}
		outcome = "refused:" + code
		w.log("refused: %v", err)
		if len(arr) != 0 {
			report("hard:switch:local:refused-but-delivered", fmt.Sprintf("%s: refused with %v yet %d packets were delivered", sc, err, len(arr)))
		}
		switch st {
		case "A":
			report("reject-mismatch:switch:local:code="+code, fmt.Sprintf("%s: refused (%v) although the link is eligible and its transit check passed", sc, err))
		case "I":
			// not a verdict of the statement's rules; any failure will do
		default:
			l.mu.Lock()
			exp := c09Code(l.transit)
			l.mu.Unlock()
			if code != exp {
				report("wrong-failure:switch:local:code="+code, fmt.Sprintf("%s: refused with %s, the link's verdict was %s", sc, code, exp))
			}
		}
		return
	}

	pkt := &htlcPacket{
		incomingChanID: w.alice.ShortChanID(), incomingHTLCID: id,
		htlc: htlc, obfuscator: NewMockObfuscator(),
		incomingAmount: c09In, amount: c09Out, incomingTimeout: c09InT, outgoingTimeout: c09OutT,
		inboundFee:             models.InboundFee{Base: c09IB, Rate: c09IR},
		originalOutgoingChanID: lnwire.NewShortChanIDFromInt(c09OrigScid),
	}
	if sc.Mode == "node" {
		pkt.outgoingChanID = hop.Exit
		pkt.outgoingHop = fn.NewRight[lnwire.ShortChannelID, [33]byte](w.bob)
	} else {
		pkt.outgoingChanID = named
		pkt.outgoingHop = fn.NewLeft[lnwire.ShortChannelID, [33]byte](pkt.outgoingChanID)
	}
	if sc.Mode == "intercept" {
		w.heldMu.Lock()
		w.held = nil
		w.heldMu.Unlock()
		w.log("InterceptableSwitch.ForwardPackets: add %d from alice", id)
		if err := w.is.ForwardPackets(nil, false, pkt); err != nil {
			report("hard:switch:forward-packets-error", fmt.Sprintf("%s: %v", sc, err))
		}
		synctest.Wait()
		w.heldMu.Lock()
		held := append([]InterceptedPacket(nil), w.held...)
		w.heldMu.Unlock()
		if len(held) != 1 || held[0].IncomingCircuit != pkt.inKey() {
			report("hard:switch:interceptor-not-offered-once", fmt.Sprintf("%s: the interceptor was offered %d packets", sc, len(held)))
			return "not-intercepted"
		}
		if h := held[0]; h.IncomingAmount != c09In || h.OutgoingAmount != c09Out || h.IncomingExpiry != c09InT || h.OutgoingExpiry != c09OutT {
			report("switch:interceptor-shown-other-values", fmt.Sprintf("%s: the interceptor was shown in=%v out=%v expiries %d/%d, the packet says %d/%d %d/%d",
				sc, h.IncomingAmount, h.OutgoingAmount, h.IncomingExpiry, h.OutgoingExpiry, c09In, c09Out, c09InT, c09OutT))
		}
		res := &FwdResolution{Key: held[0].IncomingCircuit, Action: FwdActionResumeModified}
		switch sc.Res {
		case "resume":
			res.Action = FwdActionResume
		case "in":
			want.In = c09In + 111
			res.InAmountMsat = fn.Some(lnwire.MilliSatoshi(want.In))
		case "out":
			want.Out = c09Out - 222
			res.OutAmountMsat = fn.Some(lnwire.MilliSatoshi(want.Out))
		case "both":
			want.In, want.Out = c09In+111, c09Out-222
			res.InAmountMsat, res.OutAmountMsat = fn.Some(lnwire.MilliSatoshi(want.In)), fn.Some(lnwire.MilliSatoshi(want.Out))
		case "out-above-in": // the links' checks have to see it
			want.Out = c09In + 5
			res.OutAmountMsat = fn.Some(lnwire.MilliSatoshi(want.Out))
		default:
			panic("unknown interceptor resolution " + sc.Res)
		}
		w.log("interceptor resolves with %s: the HTLC is now in=%d out=%d", sc.Res, want.In, want.Out)
		if err := w.is.Resolve(res); err != nil {
			report("hard:switch:interceptor-resolve-error", fmt.Sprintf("%s: %v", sc, err))
		}
	} else {
		w.log("ForwardPackets: add %d from alice, next hop %s", id, sc.Mode)
		if err := w.s.ForwardPackets(nil, pkt); err != nil {
			report("hard:switch:forward-packets-error", fmt.Sprintf("%s: %v", sc, err))
		}
	}
	arr := w.drain()
	defer cleanup(arr)
	argCheck()

	anyAccepts := false
	for _, st := range sc.States {
		anyAccepts = anyAccepts || st == "A"
	}
	if len(arr) != 1 {
		outcome = fmt.Sprintf("%d-outcomes", len(arr))
		report("hard:switch:outcome-count="+fmt.Sprint(len(arr)), fmt.Sprintf("%s: the Add produced %d outcomes (wanted exactly one delivery or one failure)", sc, len(arr)))
		return
	}
	a := arr[0]
	if _, isAdd := a.pkt.htlc.(*lnwire.UpdateAddHTLC); isAdd {
		outcome = "delivered"
		w.log("delivered to %s", a.link.name)
		idx := -1
		for i, l := range w.bobs {
			if l == a.link {
				idx = i
			}
		}
		if idx < 0 {
			report("accept-mismatch:switch:delivered-to-foreign-link", fmt.Sprintf("%s: the Add went to %s, which is not a link of the addressed peer", sc, a.link.name))
			return
		}
		if st := sc.States[idx]; st != "A" {
			report("accept-mismatch:switch:delivered-to-link-in-state="+st,
				fmt.Sprintf("%s: the Add went to %s, which is ineligible or whose CheckHtlcForward did not return nil", sc, a.link.name))
		}
		a.link.mu.Lock()
		consulted := len(a.link.fwdCalls)
		a.link.mu.Unlock()
		if consulted == 0 {
			report("accept-mismatch:switch:delivered-without-check", fmt.Sprintf("%s: the Add went to %s without its CheckHtlcForward being consulted", sc, a.link.name))
		}
		// what goes out on the wire is what the check was consulted with
		if add := a.pkt.htlc.(*lnwire.UpdateAddHTLC); uint64(add.Amount) != want.Out || add.Expiry != want.OutT || uint64(a.pkt.amount) != want.Out {
			report("accept-mismatch:switch:delivered-htlc-differs-from-checked",
				fmt.Sprintf("%s: the update_add_htlc handed to %s carries %d msat expiring %d (packet amount %d msat), the links were to be consulted with %d msat expiring %d",
					sc, a.link.name, uint64(add.Amount), add.Expiry, uint64(a.pkt.amount), want.Out, want.OutT))
		}
		return
	}
	// failed back
	if a.link != w.alice {
		outcome = "failure-to-wrong-link"
		report("hard:switch:failure-sent-to-"+a.link.name, fmt.Sprintf("%s: the failure went to %s", sc, a.link.name))
		return
	}
	code := c09Code(a.pkt.linkFailure)
	outcome = "failed:" + code
	w.log("failed back with %s", code)
	if sc.Mode == "scid" || sc.Mode == "intercept" {
		st := sc.States[sc.Req]
		if hidden && code == "UnknownNextPeer" {
			return
		}
		if st == "A" {
			report("reject-mismatch:switch:requested-link-accepts:code="+code,
				fmt.Sprintf("%s: failed with %s although the requested link is eligible and its check passed", sc, code))
			return
		}
		exp := "UnknownNextPeer"
		if st != "I" {
			exp = c09Code(w.bobs[sc.Req].fwd)
		}
		if code != exp {
			report("wrong-failure:switch:code="+code+":requested-link-state="+st,
				fmt.Sprintf("%s: failed with %s, the requested link's verdict is %s", sc, code, exp))
		}
		return
	}
	if anyAccepts {
		report("reject-mismatch:switch:node-hop:a-link-accepts:code="+code,
			fmt.Sprintf("%s: failed with %s although a link of the addressed peer is eligible and its check passed", sc, code))
		return
	}
	ok := code == "UnknownNextPeer"
	for i, st := range sc.States {
		if st != "I" && st != "A" && c09Code(w.bobs[i].fwd) == code {
			ok = true
		}
	}
	if !ok {
		report("wrong-failure:switch:node-hop:code="+code, fmt.Sprintf("%s: failed with %s, which no consulted link answered", sc, code))
	}
	return
}

func c09Scenarios(nBob int, alphabet []string, kinds string) []c09Scenario {
	var states [][]string
	var rec func(cur []string)
	rec = func(cur []string) {
		if len(cur) == nBob {
			states = append(states, append([]string(nil), cur...))
			return
		}
		for _, a := range alphabet {
			rec(append(cur, a))
		}
	}
	rec(nil)
	var out []c09Scenario
	for _, st := range states {
		for r := 0; r < nBob; r++ {
			k := byte('P')
			if kinds != "" {
				k = kinds[r]
			}
			for _, via := range c09Vias(k) {
				out = append(out, c09Scenario{Kind: "switch", Mode: "scid", Req: r, States: st, Kinds: kinds, Via: via})
				out = append(out, c09Scenario{Kind: "switch", Mode: "local", Req: r, States: st, Kinds: kinds, Via: via})
			}
		}
		out = append(out, c09Scenario{Kind: "switch", Mode: "node", States: st, Kinds: kinds})
		if kinds == "" {
			for r := 0; r < nBob; r++ {
				for _, res := range []string{"resume", "in", "out", "both", "out-above-in"} {
					out = append(out, c09Scenario{Kind: "switch", Mode: "intercept", Req: r, States: st, Res: res})
				}
			}
		}
	}
	return out
}

func TestC09Switch(t *testing.T) {
	run := evid.Start("C09", "exploration")
	if rp := os.Getenv("VERIF_REPLAY"); rp != "" {
		b, err := os.ReadFile(rp)
		if err != nil {
			t.Fatalf("replay: %v", err)
		}
		var f struct {
			Signature string      `json:"signature"`
			Replay    c09Scenario `json:"replay"`
		}
		_ = json.Unmarshal(b, &f)
		if f.Replay.Kind != "switch" {
			fmt.Printf("INFO target switch: the replay artefact belongs to target main, nothing to do here\n")
			os.Exit(run.Finish(map[string]any{"evaluations": 1, "distinct_nontrivial": 2, "rule": "replay (other target)", "samples": []any{rp}}))
		}
		synctest.Test(t, func(t *testing.T) {
			w := newC09World(t, len(f.Replay.States), f.Replay.Kinds)
			defer w.stop()
			w.log = func(fm string, a ...any) { fmt.Printf("INFO "+fm+"\n", a...) }
			fmt.Printf("INFO replaying %s (recorded signature %s): %s\n", rp, f.Signature, f.Replay)
			for i := 0; i < 3; i++ {
				fmt.Printf("INFO --- run %d/3 ---\n", i+1)
				clean := true
				o := w.run(f.Replay, func(sig, what string) {
					clean = false
					fmt.Printf("INFO verdict: %s\n", what)
					run.Violation(sig, what, f.Replay)
				})
				fmt.Printf("INFO outcome: %s\n", o)
				if clean {
					fmt.Printf("INFO verdict: agrees with the statement\n")
				}
			}
		})
		os.Exit(run.Finish(map[string]any{"evaluations": 3, "distinct_nontrivial": 2, "rule": "replay of one switch scenario, three times", "samples": []any{f.Replay}}))
	}

	nBob := 3
	if run.Thorough() {
		nBob = 4
	}
	// worlds: all links plain (the original enumeration), then the addressing kinds
	worldKinds := []string{"", "FZU"}
	if run.Thorough() {
		worldKinds = []string{"", "FZUz", "UzPF", "ZZFF"}
	}
	var scs []c09Scenario
	byKinds := map[string]int{}
	byRes := map[string]int{}
	outcomes := map[string]int{}
	classes := map[string]bool{}
	nontrivial := map[string]bool{}
	samples := evid.NewSamples(6)
	nondet := 0
	for _, kinds := range worldKinds {
		wscs := c09Scenarios(nBob, []string{"I", "A", "R", "T"}, kinds)
		scs = append(scs, wscs...)
		synctest.Test(t, func(t *testing.T) {
			w := newC09World(t, nBob, kinds)
			defer w.stop()
			for _, sc := range wscs {
				sc := sc
				if kinds != "" && sc.Mode != "node" {
					byKinds[sc.Mode+":"+string(sc.reqKind())+"/"+sc.Via]++
				}
				type rep struct{ sig, what string }
				var reps []rep
				o := w.run(sc, func(sig, what string) { reps = append(reps, rep{sig, what}) })
				outcomes[sc.Mode+":"+o]++
				if sc.Res != "" {
					byRes[sc.Res+":"+o]++
				}
				// class: addressing, state of the requested link, multiset of states, outcome
				ms := append([]string(nil), sc.States...)
				sort.Strings(ms)
				req := sc.States[sc.Req]
				if sc.Mode == "node" {
					req = "-"
				}
				cl := sc.Mode + sc.Res + "/" + req + "/" + strings.Join(ms, "") + "/" + o
				if kinds != "" && sc.Mode != "node" {
					cl += "/" + string(sc.reqKind()) + "/" + sc.Via
				}
				if !classes[cl] {
					classes[cl] = true
					// non-trivial: the links of the peer disagree with each other
					if ms[0] != ms[len(ms)-1] {
						nontrivial[cl] = true
						samples.Add(map[string]any{"scenario": sc, "outcome": o})
					}
				}
				if len(reps) == 0 {
					continue
				}
				// determinism gate: the same scenario again must be judged the same way
				// (which of several accepting links is picked is the switch's random
				// choice and not part of the judgement)
				var again []rep
				w.run(sc, func(sig, what string) { again = append(again, rep{sig, what}) })
				if len(again) == 0 {
					nondet++
					continue
				}
				for _, r := range reps {
					run.Violation(r.sig, r.what, sc)
				}
			}
		})
	}
	cov := map[string]any{
		"evaluations":         len(scs),
		"distinct_nontrivial": len(nontrivial),
		"rule": "target switch: an evaluation = one Add pushed through a real, started Switch (ForwardPackets / SendHTLC) with " + fmt.Sprint(nBob) +
			" programmable links to the next peer, judged at synctest quiescence; distinct_nontrivial = distinct (addressing, state of the requested link, multiset of link states, outcome) in which the peer's links do not all behave alike",
		"samples":                samples.List(),
		"switch_scenarios":       len(scs),
		"switch_outcome_classes": outcomes,
		"switch_classes_total":   len(classes),
		"switch_scenarios_by_requested_link_kind_and_naming": byKinds,
		"switch_link_kind_worlds":                            worldKinds,
		"switch_interceptor_resolution_outcomes":             byRes,
	}
	if nondet > 0 {
		cov["exhaustive"] = false
		cov["switch_nondeterminism_detected"] = nondet
	}
	run.Assumptions = append(run.Assumptions,
		"target switch: links are the repo's mockChannelLink with programmable eligibility/verdicts (the verdicts themselves are judged on real links by target main); which of several accepting links the switch picks is random by design and not judged; falling back to another accepting link when the requested one refuses (non-strict forwarding) is allowed but not demanded; for a blinded node-id next hop UnknownNextPeer is accepted as the failure (documented: no per-channel data is revealed)")
	if code := run.Finish(cov); code != 0 {
		os.Exit(code)
	}
}
