// C13 harness, part 1: the closed world around one real, *started* ChannelArbitrator.
//
// What is real: the ChannelArbitrator (its attendant goroutine, advanceState, every
// resolver and its goroutines) and the bolt-backed arbitrator log
// (newBoltArbitratorLog) on a real bbolt file wrapped by verifmc/crashdb.
//
// What the harness owns (all through exported config fields / interfaces):
//   - the chain: a tiny block chain + mempool model. A ChainNotifier with historical
//     dispatch (a spend registered after the fact is answered from the chain), a
//     sweeper that keeps offered inputs in memory (lost on a crash), publishes a
//     deterministic one-input transaction once the input is mature, and reports the
//     result; PublishTx; the chain watcher's close event (delivered when the funding
//     output is spent and re-delivered after a restart while the channel is not yet
//     marked closed in the database - what lnd's chain watcher does);
//   - everything lnd writes outside the arbitrator log but into the same channel.db
//     (MarkChannelClosed, MarkCommitmentBroadcasted, MarkBorked, the switch's
//     resolution-message store, final HTLC outcomes, resolver reports, the witness
//     cache, MarkChanFullyClosed): each is one write transaction on the *same*
//     crashdb-wrapped backend, so it is a crash point and survives a restart;
//   - the channel itself: type (anchors, script-enforced lease as initiator or not,
//     simple taproot, taproot final, legacy tweakless), per-commitment output
//     layout, HTLC sets, resolutions with well-formed placeholder scripts / keys /
//     control blocks; for legacy channels the utxo nursery (durable store, acts
//     while the node is up);
//   - (axis audit) the chain backend's mempool watcher (only in the */mempool
//     scenarios; it tells a subscription about transactions that enter the mempool
//     after the subscription was made), a notifier that honours the height hint of
//     a spend registration, the invoice registry for exit-hop HTLCs (durable state:
//     every accept / settle / cancel is a write transaction of channel.db and hence
//     a stop point; replays are answered like lnd's registry), per-HTLC onion
//     payloads, the upstream expiry of forwarded HTLCs, and the user who asks for a
//     force close through the real ChainArbitrator.ForceCloseContract and repeats
//     the request after a restart while the arbitrator is still in StateDefault;
//   - "ChainArbitrator": startNode() builds the arbitrator exactly as
//     newActiveChannelArbitrator / loadPendingCloseChannels do (open channel: HTLC
//     sets, Channel, chain events; pending close: IsPendingClose, CloseType,
//     ClosingHeight, empty ChainEventSubscription, nothing else), and the
//     resolveContracts loop (MarkChanFullyClosed, Stop, WipeHistory).
//
// Crash model. "The node stops right after the k-th committed write transaction":
// the goroutine that performed the commit is frozen forever at the return of the
// transaction; every other goroutine of that node is frozen at its next interaction
// with the outside (any database access, any call into a harness-owned dependency),
// so nothing the dead process does after the crash instant is observable. The
// in-memory node (arbitrator, resolvers, registrations, sweeper inputs) is dropped,
// a fresh node is started on the same database, and the script continues with the
// next block. Everything runs inside one testing/synctest bubble; synctest.Wait()
// is the quiescence detector between two stimuli.
// What outlives the process is exactly what it had handed over before the stop
// instant: the database (arbitrator log, channel.db side store, the nursery store -
// one write transaction per IncubateOutputs, the in-memory nursery list is only a
// mirror rebuilt from it at every start), transactions already in the mempool or
// on chain. Sweeper inputs, notifier registrations and subscriptions die with the
// process. This is self-checked, not assumed: survivors() is taken at the stop
// instant and compared at the restart (any difference is reported as a harness
// problem), and every call a dead process still attempts is parked and counted per
// dependency (refuse).
//
// Unexported identifiers relied on: newBoltArbitratorLog, htlcSet/newHtlcSet (the
// parameter type of the exported NewChannelArbitrator), ChainArbitrator.activeChannels
// (to register the arbitrator for ForceCloseContract) and the package's test
// fixture mockOnionProcessor (fields isExit, forwardAmount, outgoingCltv). Resolver internals are only read through fmt "%T" and
// reflection by field name ("outputIncubating"), which degrade gracefully.
package contractcourt

import (
	"bytes"
	"context"
	"crypto/sha256"
	"encoding/binary"
	"encoding/hex"
	"encoding/json"
	"errors"
	"fmt"
	"io"
	"os"
	"path/filepath"
	"reflect"
	"runtime"
	"sort"
	"strings"
	"sync"
	"sync/atomic"
	"testing/synctest"
	"time"

	"github.com/btcsuite/btcd/btcec/v2"
	"github.com/btcsuite/btcd/btcec/v2/ecdsa"
	"github.com/btcsuite/btcd/btcec/v2/schnorr"
	"github.com/btcsuite/btcd/chainhash/v2"
	"github.com/btcsuite/btcd/txscript/v2"
	"github.com/btcsuite/btcd/wire/v2"
	"github.com/btcsuite/btcwallet/walletdb"
	"github.com/lightningnetwork/lnd/chainio"
	"github.com/lightningnetwork/lnd/chainntnfs"
	"github.com/lightningnetwork/lnd/channeldb"
	"github.com/lightningnetwork/lnd/chanstate"
	"github.com/lightningnetwork/lnd/clock"
	"github.com/lightningnetwork/lnd/fn/v2"
	"github.com/lightningnetwork/lnd/graph/db/models"
	"github.com/lightningnetwork/lnd/htlcswitch/hop"
	"github.com/lightningnetwork/lnd/input"
	"github.com/lightningnetwork/lnd/invoices"
	"github.com/lightningnetwork/lnd/keychain"
	"github.com/lightningnetwork/lnd/kvdb"
	"github.com/lightningnetwork/lnd/lntypes"
	"github.com/lightningnetwork/lnd/lnwallet"
	"github.com/lightningnetwork/lnd/lnwallet/chainfee"
	"github.com/lightningnetwork/lnd/lnwire"
	"github.com/lightningnetwork/lnd/sweep"
	"github.com/lightningnetwork/lnd/verifmc/crashdb"
)

// ---------------------------------------------------------------------------
// Scenario description (JSON-able: part of the replay artefact)
// ---------------------------------------------------------------------------

const (
	c13H0       = 100 // chain height at which the node first starts
	c13CsvLocal = 4   // CSV delay of our own delayed outputs
)

// c13HTLC is one HTLC of the channel at the time it goes to chain.
type c13HTLC struct {
	In   bool   `json:"in"`   // received (true) / offered (false)
	Dust bool   `json:"dust"` // no output on any commitment
	On   string `json:"on"`   // "all" | "remote" (remote+pending, not local) | "pending" (remote pending only)
	Exp  uint32 `json:"exp"`  // absolute expiry
	// Pre: received HTLC: "known" (preimage in the witness cache from the start),
	// "late" (arrives when block At is connected), "never".
	// "late-lost" (arrives when block At is connected, but our claim loses the race:
	// whatever we publish to spend the HTLC output does not confirm before the
	// remote party's timeout spend, which is mined in block Exp+1), "underpaid"
	// (exit hop only: the onion asks for more than the HTLC carries).
	// offered HTLC: "" (times out) or "claim" (the remote party sweeps the output
	// with the preimage in block At; with a mempool watcher the spend is visible
	// in the mempool while block At-1 is the tip) or "claim-direct" (the same, but
	// the spend is never relayed: it is first seen in block At).
	Pre string `json:"pre"`
	At  int32  `json:"at"`
	Idx uint64 `json:"idx"` // assigned: offered and received are numbered independently
	// Inv: received HTLC only. "" = a forward (the onion names a next hop); otherwise
	// we are the exit hop and the invoice registry decides: "settle" (open invoice
	// with a known preimage: settled when the HTLC is notified), "canceled" (the
	// invoice was canceled before the HTLC arrived), "hodl-settle" / "hodl-cancel"
	// (hold invoice: the HTLC is accepted, the user settles / cancels the invoice
	// once block At is connected and the node is up).
	Inv string `json:"inv,omitempty"`
}

// c13Scn is one close scenario.
type c13Scn struct {
	Name string `json:"name"`
	// Close: which transaction spends the funding output.
	//   "coop"    cooperative close tx, mined in block CloseAt
	//   "remote"  the remote party's current commitment, mined in block CloseAt
	//   "pending" the remote party's pending (unrevoked, newer) commitment, block CloseAt
	//   "breach"  a revoked remote commitment, block CloseAt
	//   "local"   our own commitment, one block after the arbitrator publishes it
	Close      string    `json:"close"`
	CloseAt    int32     `json:"close_at"`
	HasPending bool      `json:"has_pending"`
	ToLocal    bool      `json:"to_local"` // we have a balance output on the confirmed commitment
	Anchor     bool      `json:"anchor"`
	HTLCs      []c13HTLC `json:"htlcs"`
	JusticeAt  int32     `json:"justice_at"` // breach: block in which the justice tx is final
	MaxBlocks  int       `json:"max_blocks"`
	// Layout: HTLC k sits in output slot k on the commitment that confirms and in
	// slot Layout[k] on every other commitment (nil: same slots everywhere). Real
	// commitments order their outputs independently (BIP69 over different scripts
	// and amounts), so the same output index means different HTLCs on different
	// commitments.
	Layout []int `json:"layout,omitempty"`
	// Chan is the channel type: "" / "anchor" (anchors, zero-fee second-level HTLC
	// transactions), "lease-init" / "lease-noninit" (script-enforced lease, thaw
	// height c13Thaw, we are / are not the initiator), "taproot", "taproot-final",
	// "legacy" (tweakless, no anchors: second-level HTLCs of our own commitment go
	// through the utxo nursery).
	Chan string `json:"chan,omitempty"`
	// Mempool: the chain backend is a full node with a mempool watcher (btcd /
	// bitcoind; false: neutrino). Resolvers of offered HTLCs then also learn of
	// unconfirmed spends of the HTLC output, but only of transactions that enter
	// the mempool after the subscription (what lnd's mempool notifier delivers).
	Mempool bool `json:"mempool,omitempty"`
	// NoUpstream: the offered HTLCs have no incoming circuit (FindOutgoingHTLCDeadline
	// answers None); otherwise HTLC k is a forward whose incoming HTLC expires at
	// Exp+20+2k.
	NoUpstream bool `json:"no_upstream,omitempty"`
	// UserClose: from this block on the user asks for a force close
	// (ChainArbitrator.ForceCloseContract -> userTrigger) and keeps asking after a
	// restart until the arbitrator has left StateDefault. 0: never.
	UserClose int32 `json:"user_close,omitempty"`
}

const c13Thaw = 125 // lease expiry (absolute height)

func (s *c13Scn) taproot() bool { return s.Chan == "taproot" || s.Chan == "taproot-final" }
func (s *c13Scn) legacy() bool  { return s.Chan == "legacy" }

func (s *c13Scn) chanType() channeldb.ChannelType {
	anchors := channeldb.SingleFunderTweaklessBit | channeldb.AnchorOutputsBit | channeldb.ZeroHtlcTxFeeBit
	switch s.Chan {
	case "lease-init", "lease-noninit":
		return anchors | channeldb.LeaseExpirationBit
	case "taproot":
		return anchors | channeldb.SimpleTaprootFeatureBit
	case "taproot-final":
		return anchors | channeldb.SimpleTaprootFeatureBit | channeldb.TaprootFinalBit
	case "legacy":
		return channeldb.SingleFunderTweaklessBit
	}
	return anchors
}

// confirmed is the commitment kind whose HTLC set is the confirmed one.
func (s *c13Scn) confirmed() string {
	switch s.Close {
	case "local", "pending":
		return s.Close
	}
	return "remote"
}

// slot is the output slot of HTLC j on commitment kind k.
func (s *c13Scn) slot(k string, j int) int {
	if k == s.confirmed() || len(s.Layout) != len(s.HTLCs) {
		return j
	}
	return s.Layout[j]
}

func (s *c13Scn) number() {
	var o, i uint64
	for k := range s.HTLCs {
		if s.HTLCs[k].On == "" {
			s.HTLCs[k].On = "all"
		}
		// Offered and received HTLCs are numbered independently (the two parties'
		// counters), so ids collide across directions on purpose; they start at 11
		// so that no id equals a log index (31..) or an output index (4..).
		if s.HTLCs[k].In {
			s.HTLCs[k].Idx = 11 + i
			i++
		} else {
			s.HTLCs[k].Idx = 11 + o
			o++
		}
	}
	if s.MaxBlocks == 0 {
		s.MaxBlocks = 60
	}
}

func (h c13HTLC) name() string {
	if h.In {
		return fmt.Sprintf("in%d", h.Idx)
	}
	return fmt.Sprintf("out%d", h.Idx)
}

func (h c13HTLC) preimage() lntypes.Preimage {
	return lntypes.Preimage(sha256.Sum256([]byte("c13-preimage-" + h.name())))
}

// onCommit reports whether the HTLC is part of commitment kind k.
func (s *c13Scn) onCommit(h c13HTLC, k string) bool {
	switch k {
	case "local":
		return h.On == "all"
	case "remote":
		return h.On == "all" || h.On == "remote"
	case "pending":
		return s.HasPending
	}
	return false
}

// ---------------------------------------------------------------------------
// Observations
// ---------------------------------------------------------------------------

type c13CrashInfo struct {
	K         int64    `json:"k"`          // commits allowed since the (re)start of the node
	Abs       int64    `json:"abs"`        // absolute index of the last committed write
	Label     string   `json:"label"`      // which write that was
	State     string   `json:"state"`      // arbitrator state on disk at the restart
	Mode      string   `json:"mode"`       // how the node restarted: open | pending-close | gone
	Height    int32    `json:"height"`     // chain height at the crash
	Resolver  []string `json:"resolver"`   // unresolved contracts on disk at the restart
	CommitSet bool     `json:"commit_set"` // a confirmed commit set is on disk at the restart
}

// c13Obs is everything the oracle looks at.
type c13Obs struct {
	Scn        string              `json:"scn"`
	Crashes    []c13CrashInfo      `json:"crashes,omitempty"`
	W          int64               `json:"w"` // committed write transactions in the whole run
	Labels     []string            `json:"labels,omitempty"`
	FinalState string              `json:"final_state"`
	Left       []string            `json:"left_unresolved,omitempty"` // unresolved-contract bucket at the end
	Closed     string              `json:"closed"`                    // close type recorded by MarkChannelClosed
	FullyDone  bool                `json:"fully_closed"`
	Msgs       map[string][]string `json:"msgs"`   // out<i> -> {settle, fail}
	Finals     map[string][]string `json:"finals"` // in<i>  -> {settled, failed}
	Reports    []string            `json:"reports"`
	ChainTxs   []string            `json:"chain_txs"`
	Published  []string            `json:"published"`
	Offered    []string            `json:"offered"`
	// OfferContent: per outpoint, every distinct content with which it was handed
	// to the sweeper; Maturity: per (outpoint, type, stage) of the arbitrator's
	// contract reports, every maturity height seen (in all normal forms).
	OfferContent map[string][]string `json:"offer_content,omitempty"`
	Maturity     map[string][]string `json:"report_maturity,omitempty"`
	Preimages    []string            `json:"preimages_added"`
	Notified     int                 `json:"resolved_notifications"`
	Anomalies    []string            `json:"anomalies,omitempty"`
	// Stop-model self-check (never a verdict about lnd): Frozen counts the calls a
	// dead process still attempted on the outside (database, harness-owned
	// dependency) and that were parked instead of carried out; PostStop lists
	// every difference between what outlives the process (database, mempool and
	// chain, nursery store, witness cache, every recorded sink) at the stop
	// instant and at the restart. It must stay empty.
	Frozen   [3]int         `json:"parked_calls_of_dead_processes"` // writes, reads, dependency calls
	ParkedBy map[string]int `json:"parked_dependency_calls,omitempty"`
	PostStop []string       `json:"effects_after_stop,omitempty"`
	Blocks   int            `json:"blocks"`
	Height   int32          `json:"height"`
	MaxRank  map[string]int `json:"-"`
}

func c13SetAdd(m map[string][]string, k, v string) {
	for _, x := range m[k] {
		if x == v {
			return
		}
	}
	m[k] = append(m[k], v)
	sort.Strings(m[k])
}

func c13ListAdd(l []string, v string) []string {
	for _, x := range l {
		if x == v {
			return l
		}
	}
	l = append(l, v)
	sort.Strings(l)
	return l
}

// ---------------------------------------------------------------------------
// Durable side store: what lnd keeps in channel.db next to the arbitrator log
// ---------------------------------------------------------------------------

var c13Bucket = []byte("c13-channeldb-model")

type c13Event struct {
	K       string `json:"k"` // closed | bcast | borked | msg | final | report | preimage | fully-closed
	Idx     uint64 `json:"idx,omitempty"`
	Settle  bool   `json:"settle,omitempty"`
	Type    uint8  `json:"type,omitempty"`
	Height  uint32 `json:"height,omitempty"`
	Report  string `json:"report,omitempty"`
	Pre     string `json:"pre,omitempty"`
	Comment string `json:"c,omitempty"`
}

func c13PutEvents(tx kvdb.RwTx, evs ...c13Event) error {
	b, err := tx.CreateTopLevelBucket(c13Bucket)
	if err != nil {
		return err
	}
	for _, ev := range evs {
		seq, err := b.NextSequence()
		if err != nil {
			return err
		}
		var key [8]byte
		binary.BigEndian.PutUint64(key[:], seq)
		val, _ := json.Marshal(ev)
		if err := b.Put(key[:], val); err != nil {
			return err
		}
	}
	return nil
}

// c13Durable is the decoded side store.
type c13Durable struct {
	closed      bool
	closeType   channeldb.ClosureType
	closeHeight uint32
	bcast       bool
	fullyClosed bool
	events      []c13Event
}

func (w *c13World) readDurable() c13Durable {
	var d c13Durable
	_ = w.bolt.View(func(tx walletdb.ReadTx) error {
		b := tx.ReadBucket(c13Bucket)
		if b == nil {
			return nil
		}
		return b.ForEach(func(_, v []byte) error {
			var ev c13Event
			if err := json.Unmarshal(v, &ev); err != nil {
				return err
			}
			d.events = append(d.events, ev)
			switch ev.K {
			case "closed":
				if !d.closed {
					d.closed = true
					d.closeType = channeldb.ClosureType(ev.Type)
					d.closeHeight = ev.Height
				}
			case "bcast":
				d.bcast = true
			case "fully-closed":
				d.fullyClosed = true
			}
			return nil
		})
	}, func() { d = c13Durable{} })
	return d
}

// ---------------------------------------------------------------------------
// The gated database handle of one node generation
// ---------------------------------------------------------------------------

// c13DB is the kvdb.Backend handed to one node generation. It forwards to the
// crashdb wrapper, labels and counts commits, declares the crash at the armed
// commit and freezes every caller that belongs to a dead process.
type c13DB struct {
	*crashdb.DB
	w *c13World
	n *c13Node
}

var _ kvdb.Backend = (*c13DB)(nil)

func (d *c13DB) gone() bool { return d.n.dead.Load() || d.w.crashed.Load() }

func (d *c13DB) update(label string, f func(tx walletdb.ReadWriteTx) error, reset func()) error {
	w := d.w
	w.mu.Lock()
	if d.gone() {
		w.mu.Unlock()
		w.refuse(c13ParkedWrite, "")
	}
	err := d.DB.Update(f, reset)
	hit := false
	switch {
	case err == nil:
		n := d.DB.Commits()
		w.labels = append(w.labels, label)
		w.logf("    commit #%d  %s", n, label)
		if w.crashAt > 0 && n >= w.crashAt {
			w.crashed.Store(true)
			hit = true
			w.stopPrint = w.survivors()
			w.logf("    *** node stops here (after commit #%d) ***", n)
		}
	case errors.Is(err, crashdb.ErrCrashed):
		// Cannot happen (callers are frozen first); never hand the synthetic
		// error to lnd.
		w.crashed.Store(true)
		hit = true
		w.obs.PostStop = c13ListAdd(w.obs.PostStop, "write-attempted-after-stop:"+label)
	}
	w.mu.Unlock()
	if hit {
		w.freeze()
	}
	return err
}

func (d *c13DB) Update(f func(tx walletdb.ReadWriteTx) error, reset func()) error {
	return d.update(c13Caller(), f, reset)
}

func (d *c13DB) View(f func(tx walletdb.ReadTx) error, reset func()) error {
	if d.gone() {
		d.w.refuse(c13ParkedRead, "")
	}
	return d.DB.View(f, reset)
}

func (d *c13DB) BeginReadTx() (walletdb.ReadTx, error) {
	if d.gone() {
		d.w.refuse(c13ParkedRead, "")
	}
	return d.DB.BeginReadTx()
}

func (d *c13DB) BeginReadWriteTx() (walletdb.ReadWriteTx, error) {
	// The arbitrator log never opens manual write transactions. If a change makes
	// it do so the commit would escape the crash bookkeeping: refuse loudly.
	d.w.anomaly("manual-write-transaction-opened:" + c13Caller())
	return nil, errors.New("c13: manual write transactions are not modelled")
}

// c13Caller names the write: the first two contractcourt frames below the kvdb
// layer that are not part of the harness.
func c13Caller() string {
	var pcs [40]uintptr
	n := runtime.Callers(3, pcs[:])
	frames := runtime.CallersFrames(pcs[:n])
	var names []string
	for {
		fr, more := frames.Next()
		if strings.Contains(fr.Function, "/contractcourt.") && !strings.Contains(fr.File, "zz_verif_c13") {
			name := fr.Function[strings.LastIndex(fr.Function, "/contractcourt.")+len("/contractcourt."):]
			name = strings.NewReplacer("(*", "", ")", "").Replace(name)
			// drop closure suffixes
			if i := strings.Index(name, ".func"); i >= 0 {
				name = name[:i]
			}
			if len(names) == 0 || names[len(names)-1] != name {
				names = append(names, name)
			}
			if len(names) == 2 {
				break
			}
		}
		if !more {
			break
		}
	}
	if len(names) == 0 {
		return "?"
	}
	return strings.Join(names, "<")
}

// ---------------------------------------------------------------------------
// Chain model
// ---------------------------------------------------------------------------

type c13Spend struct {
	tx     *wire.MsgTx
	idx    uint32
	height int32
	ours   bool
}

type c13MemTx struct {
	tx   *wire.MsgTx
	minH int32
	ours bool
}

type c13Mined struct {
	tx     *wire.MsgTx
	height int32
}

// c13Role says what an outpoint is, so that spending witnesses have the shape the
// real scripts impose.
type c13Role struct {
	kind   string // "htlc" | other
	commit string // local | remote | pending
	htlc   int    // index into scn.HTLCs
}

// ---------------------------------------------------------------------------
// World
// ---------------------------------------------------------------------------

type c13World struct {
	scn  c13Scn
	dir  string
	bolt kvdb.Backend
	cdb  *crashdb.DB

	// mu makes every interaction of the node with the outside atomic with respect
	// to the crash instant.
	mu       sync.Mutex
	crashed  atomic.Bool
	never    chan struct{}
	crashAt  int64 // absolute commit index after which the node stops; 0: not armed
	lastBase int64 // commits at the time the current crash was armed
	lastArm  int64
	labels   []string

	height   atomic.Int32
	funding  wire.OutPoint
	commits  map[string]*wire.MsgTx // local, remote, pending, revoked, coop
	roles    map[wire.OutPoint]c13Role
	tags     map[chainhash.Hash]string
	chain    map[chainhash.Hash]*c13Mined
	spent    map[wire.OutPoint]*c13Spend
	mempool  []*c13MemTx
	knownPre map[lntypes.Hash]lntypes.Preimage
	justice  bool

	node *c13Node
	gen  int

	rawLog   ArbitratorLog
	lastSnap map[string]int

	obs     c13Obs
	verbose bool
	peerSig input.Signature

	ctrl     []byte            // a well-formed taproot control block
	delayKey *btcec.PublicKey  // our delay base point (taproot: tells our commitment from theirs)
	payKey   *btcec.PublicKey  // our payment base point
	nursery  []c13Kid          // legacy channels: what was handed to the utxo nursery (durable)
	inv      map[uint64]string // invoice registry mirror: received HTLC index -> accepted | settled | canceled (durable)

	stopPrint []string        // survivors() at the stop instant
	frozen    [3]atomic.Int64 // calls of dead processes that were parked, by kind
	parkMu    sync.Mutex
	parkedBy  map[string]int // parked dependency calls by dependency
}

// c13Kid is one HTLC of our own commitment handed to the utxo nursery.
type c13Kid struct {
	j  int
	in bool
}

// pk is an output script of the kind the channel type uses.
func (w *c13World) pk(tag string) []byte {
	if w.scn.taproot() {
		h := sha256.Sum256([]byte("c13-taproot-" + tag))
		return append([]byte{txscript.OP_1, txscript.OP_DATA_32}, h[:]...)
	}
	return c13P2WSH(tag)
}

func (w *c13World) logf(format string, a ...any) {
	if w.verbose {
		fmt.Printf("INFO "+format+"\n", a...)
	}
}

func (w *c13World) anomaly(s string) {
	w.obs.Anomalies = c13ListAdd(w.obs.Anomalies, s)
	w.logf("    !! anomaly: %s", s)
}

// Every harness-owned dependency is keyed strictly by its documented key; a query
// with a key that belongs to no HTLC of the scenario is recorded as an anomaly of
// its own (the arbitrator is working with data of some other contract, or none).
// All three helpers expect the world lock to be held.
func (w *c13World) checkOffered(dep string, idx uint64) {
	for _, h := range w.scn.HTLCs {
		if !h.In && h.Idx == idx {
			return
		}
	}
	w.anomaly(fmt.Sprintf("unknown-offered-htlc-index:%s(%d)", dep, idx))
}

func (w *c13World) checkReceived(dep string, idx uint64) {
	for _, h := range w.scn.HTLCs {
		if h.In && h.Idx == idx {
			return
		}
	}
	w.anomaly(fmt.Sprintf("unknown-received-htlc-index:%s(%d)", dep, idx))
}

func (w *c13World) checkHash(dep string, hash lntypes.Hash) {
	for _, h := range w.scn.HTLCs {
		if c13HashOfPre(h.preimage()) == hash {
			return
		}
	}
	w.anomaly(fmt.Sprintf("unknown-payment-hash:%s(%x)", dep, hash[:4]))
}

// freeze parks the calling goroutine forever: it belongs to a process that died.
func (w *c13World) freeze() {
	<-w.never
	runtime.Goexit()
}

// refuse parks a goroutine of a dead process at the call it was about to make on
// the outside: the call is not carried out, only counted.
func (w *c13World) refuse(kind int, name string) {
	w.frozen[kind].Add(1)
	if kind == c13ParkedDep {
		// Which dependency: the given name, or the harness method that called enter().
		if pc, _, _, ok := runtime.Caller(3); ok && name == "" {
			name = runtime.FuncForPC(pc).Name()
			name = name[strings.LastIndex(name, ".")+1:]
		}
		w.parkMu.Lock()
		w.parkedBy[name]++
		w.parkMu.Unlock()
	}
	w.freeze()
}

const (
	c13ParkedWrite = iota // a write transaction
	c13ParkedRead         // a read transaction
	c13ParkedDep          // a call into a harness-owned dependency
)

// survivors renders everything that outlives a process: the database (number of
// committed write transactions, which covers the arbitrator log, the channel.db
// side store and the nursery store), the nursery's and the witness cache's
// in-memory mirrors, mempool and chain, and every sink the oracle reads. The
// world lock must be held or the node quiescent.
func (w *c13World) survivors() []string {
	out := []string{
		fmt.Sprintf("commits=%d", w.cdb.Commits()),
		fmt.Sprintf("nursery=%v", w.nursery),
		fmt.Sprintf("witness-cache=%d", len(w.knownPre)),
		fmt.Sprintf("invoices=%v", w.inv),
		fmt.Sprintf("chain=%d spent=%d", len(w.chain), len(w.spent)),
		fmt.Sprintf("published=%v", w.obs.Published),
		fmt.Sprintf("offered=%v", w.obs.Offered),
		fmt.Sprintf("offer-content=%v", w.obs.OfferContent),
		fmt.Sprintf("notified=%d", w.obs.Notified),
		fmt.Sprintf("anomalies=%v", w.obs.Anomalies),
	}
	var mp []string
	for _, m := range w.mempool {
		mp = append(mp, m.tx.TxHash().String()[:8])
	}
	return append(out, fmt.Sprintf("mempool=%v", mp))
}

func c13Hash(s string) chainhash.Hash { return chainhash.Hash(sha256.Sum256([]byte(s))) }

func c13P2WSH(tag string) []byte {
	h := sha256.Sum256([]byte("c13-script-" + tag))
	return append([]byte{txscript.OP_0, txscript.OP_DATA_32}, h[:]...)
}

func c13Script(tag string, first byte) []byte {
	h := sha256.Sum256([]byte("c13-witness-script-" + tag))
	return append([]byte{first}, h[:20]...)
}

var c13Sig = make([]byte, 71)
var c13Sig64 = make([]byte, 64)

func (w *c13World) tag(tx *wire.MsgTx, t string) {
	w.tags[tx.TxHash()] = t
}

func (w *c13World) tagOf(h chainhash.Hash) string {
	if t, ok := w.tags[h]; ok {
		return t
	}
	return "tx:" + h.String()[:8]
}

func (w *c13World) opName(op wire.OutPoint) string {
	if op == w.funding {
		return "funding"
	}
	return fmt.Sprintf("%s:%d", w.tagOf(op.Hash), op.Index)
}

const (
	c13OutToLocal = 0
	c13OutToThem  = 1
	c13OutAnchor  = 2
	c13OutAnchorR = 3
	c13OutHTLC0   = 4
)

func newC13World(scn c13Scn, verbose bool) (*c13World, error) {
	scn.number()
	w := &c13World{
		scn:      scn,
		never:    make(chan struct{}),
		commits:  map[string]*wire.MsgTx{},
		roles:    map[wire.OutPoint]c13Role{},
		tags:     map[chainhash.Hash]string{},
		chain:    map[chainhash.Hash]*c13Mined{},
		spent:    map[wire.OutPoint]*c13Spend{},
		knownPre: map[lntypes.Hash]lntypes.Preimage{},
		lastSnap: map[string]int{},
		parkedBy: map[string]int{},
		inv:      map[uint64]string{},
		verbose:  verbose,
	}
	w.obs = c13Obs{Scn: scn.Name, Msgs: map[string][]string{}, Finals: map[string][]string{}, MaxRank: map[string]int{},
		OfferContent: map[string][]string{}, Maturity: map[string][]string{}}
	w.height.Store(c13H0)
	w.funding = wire.OutPoint{Hash: c13Hash("c13-funding-tx"), Index: 0}

	priv, pub := btcec.PrivKeyFromBytes(bytesOf(0x13, 32))
	digest := sha256.Sum256([]byte("c13-peer-sig"))
	w.peerSig = ecdsa.Sign(priv, digest[:])
	w.ctrl = append([]byte{0xc0}, schnorr.SerializePubKey(pub)...)
	_, w.delayKey = btcec.PrivKeyFromBytes(bytesOf(0x14, 32))
	_, w.payKey = btcec.PrivKeyFromBytes(bytesOf(0x15, 32))

	// The candidate spends of the funding output.
	for i, k := range []string{"local", "remote", "pending", "revoked"} {
		if k == "pending" && !scn.HasPending {
			continue
		}
		tx := wire.NewMsgTx(2)
		tx.LockTime = uint32(500_000_000 + i)
		tx.AddTxIn(&wire.TxIn{PreviousOutPoint: w.funding, Witness: wire.TxWitness{{}, c13Sig, c13Sig, {0x52}}})
		tx.AddTxOut(&wire.TxOut{Value: 400_000, PkScript: w.pk(k + "-to-local")})
		tx.AddTxOut(&wire.TxOut{Value: 300_000, PkScript: w.pk(k + "-to-remote")})
		tx.AddTxOut(&wire.TxOut{Value: 330, PkScript: w.pk(k + "-anchor-ours")})
		tx.AddTxOut(&wire.TxOut{Value: 330, PkScript: w.pk(k + "-anchor-theirs")})
		// One output slot per HTLC of the scenario; which HTLC sits in which slot
		// depends on the commitment (scn.slot). Dust and absent HTLCs leave a
		// zero-value filler that nothing refers to.
		slots := make([]*wire.TxOut, len(scn.HTLCs))
		for j, h := range scn.HTLCs {
			v := int64(0)
			if k != "revoked" && !h.Dust && scn.onCommit(h, k) {
				v = int64(10_000 * (j + 1))
			}
			slots[scn.slot(k, j)] = &wire.TxOut{Value: v, PkScript: w.pk(fmt.Sprintf("%s-htlc-%d", k, j))}
		}
		for _, o := range slots {
			tx.AddTxOut(o)
		}
		w.commits[k] = tx
		w.tag(tx, "commit:"+k)
		w.roles[wire.OutPoint{Hash: tx.TxHash(), Index: c13OutAnchor}] = c13Role{kind: "anchor", commit: k}
		if k != "revoked" {
			for j, h := range scn.HTLCs {
				if !h.Dust && scn.onCommit(h, k) {
					w.roles[wire.OutPoint{Hash: tx.TxHash(), Index: uint32(c13OutHTLC0 + scn.slot(k, j))}] = c13Role{kind: "htlc", commit: k, htlc: j}
				}
			}
		}
	}
	coop := wire.NewMsgTx(2)
	coop.AddTxIn(&wire.TxIn{PreviousOutPoint: w.funding, Witness: wire.TxWitness{{}, c13Sig, c13Sig, {0x52}}})
	coop.AddTxOut(&wire.TxOut{Value: 500_000, PkScript: c13P2WSH("coop-ours")})
	coop.AddTxOut(&wire.TxOut{Value: 500_000, PkScript: c13P2WSH("coop-theirs")})
	w.commits["coop"] = coop
	w.tag(coop, "coop-close")

	for _, h := range scn.HTLCs {
		if h.In && h.Pre == "known" {
			p := h.preimage()
			w.knownPre[p.Hash()] = p
		}
	}

	base := os.Getenv("VERIF_SCRATCH")
	if base == "" {
		base = os.TempDir()
	}
	dir, err := os.MkdirTemp(base, "c13db")
	if err != nil {
		return nil, err
	}
	w.dir = dir
	db, err := kvdb.Create(kvdb.BoltBackendName, filepath.Join(dir, "channel.db"), true, kvdb.DefaultDBTimeout, false)
	if err != nil {
		os.RemoveAll(dir)
		return nil, err
	}
	w.bolt = db
	w.cdb = crashdb.New(db)
	raw, err := newBoltArbitratorLog(db, ChannelArbitratorConfig{}, chainhash.Hash{}, w.funding)
	if err != nil {
		w.close()
		return nil, err
	}
	w.rawLog = raw
	return w, nil
}

func c13HashOfPre(p lntypes.Preimage) lntypes.Hash { return p.Hash() }

func bytesOf(b byte, n int) []byte {
	out := make([]byte, n)
	for i := range out {
		out[i] = b
	}
	return out
}

func (w *c13World) close() {
	if w.bolt != nil {
		w.bolt.Close()
		w.bolt = nil
	}
	if w.dir != "" {
		os.RemoveAll(w.dir)
	}
}

// ---------------------------------------------------------------------------
// What the chain watcher / lnwallet would hand over for each close
// ---------------------------------------------------------------------------

func (w *c13World) chanHTLC(j int, k string) channeldb.HTLC {
	h := w.scn.HTLCs[j]
	e := channeldb.HTLC{
		RHash:         c13HashOfPre(h.preimage()),
		Amt:           lnwire.MilliSatoshi(10_000_000 * (j + 1)),
		RefundTimeout: h.Exp,
		OutputIndex:   -1,
		Incoming:      h.In,
		HtlcIndex:     h.Idx,
		LogIndex:      uint64(31 + j),
	}
	copy(e.OnionBlob[:], c13OnionBlob(h))
	if !h.Dust {
		e.OutputIndex = int32(c13OutHTLC0 + w.scn.slot(k, j))
	}
	return e
}

// c13OnionBlob is the (distinct, non-zero) onion packet of an HTLC.
func c13OnionBlob(h c13HTLC) []byte {
	seed := sha256.Sum256([]byte("c13-onion-" + h.name()))
	out := make([]byte, lnwire.OnionPacketSize)
	for i := range out {
		out[i] = seed[i%32] | 1
	}
	return out
}

func (w *c13World) htlcsOn(k string) []channeldb.HTLC {
	var out []channeldb.HTLC
	for j, h := range w.scn.HTLCs {
		if w.scn.onCommit(h, k) {
			out = append(out, w.chanHTLC(j, k))
		}
	}
	return out
}

func (w *c13World) commitSet(conf HtlcSetKey) CommitSet {
	cs := CommitSet{
		ConfCommitKey: fn.Some(conf),
		HtlcSets: map[HtlcSetKey][]channeldb.HTLC{
			LocalHtlcSet:  w.htlcsOn("local"),
			RemoteHtlcSet: w.htlcsOn("remote"),
		},
	}
	if w.scn.HasPending {
		cs.HtlcSets[RemotePendingHtlcSet] = w.htlcsOn("pending")
	}
	return cs
}

func (w *c13World) signDesc(tag string, out *wire.TxOut, first byte) input.SignDescriptor {
	sd := input.SignDescriptor{
		WitnessScript: c13Script(tag, first),
		Output:        out,
		HashType:      txscript.SigHashAll,
	}
	if w.scn.taproot() {
		sd.HashType = txscript.SigHashDefault
		sd.SignMethod = input.TaprootScriptSpendSignMethod
		sd.ControlBlock = append([]byte{}, w.ctrl...)
	}
	return sd
}

func (w *c13World) anchorRes(k string) *lnwallet.AnchorResolution {
	tx := w.commits[k]
	asd := w.signDesc(k+"-anchor", tx.TxOut[c13OutAnchor], txscript.OP_DATA_33)
	if w.scn.taproot() {
		asd.ControlBlock = nil
		asd.SignMethod = input.TaprootKeySpendSignMethod
		asd.TapTweak = bytesOf(0x77, 32)
	}
	return &lnwallet.AnchorResolution{
		AnchorSignDescriptor: asd,
		CommitAnchor:         wire.OutPoint{Hash: tx.TxHash(), Index: c13OutAnchor},
		CommitFee:            1000,
		CommitWeight:         1200,
	}
}

func (w *c13World) commitRes(k string) *lnwallet.CommitOutputResolution {
	tx := w.commits[k]
	if k == "local" {
		sd := w.signDesc(k+"-to-local", tx.TxOut[c13OutToLocal], txscript.OP_IF)
		sd.KeyDesc.PubKey = w.delayKey
		return &lnwallet.CommitOutputResolution{
			SelfOutPoint:       wire.OutPoint{Hash: tx.TxHash(), Index: c13OutToLocal},
			SelfOutputSignDesc: sd,
			MaturityDelay:      c13CsvLocal,
		}
	}
	sd := w.signDesc(k+"-to-us", tx.TxOut[c13OutToThem], txscript.OP_DATA_33)
	sd.KeyDesc.PubKey = w.payKey
	delay := uint32(1)
	if w.scn.legacy() {
		delay = 0 // plain key output, no CSV
	}
	return &lnwallet.CommitOutputResolution{
		SelfOutPoint:       wire.OutPoint{Hash: tx.TxHash(), Index: c13OutToThem},
		SelfOutputSignDesc: sd,
		MaturityDelay:      delay,
	}
}

// secondLevel builds the pre-signed second-level transaction of HTLC j on our
// own commitment.
func (w *c13World) secondLevel(j int) *wire.MsgTx {
	h := w.scn.HTLCs[j]
	commit := w.commits["local"]
	slot := c13OutHTLC0 + w.scn.slot("local", j)
	op := wire.OutPoint{Hash: commit.TxHash(), Index: uint32(slot)}
	tx := wire.NewMsgTx(2)
	script := c13Script(fmt.Sprintf("local-htlc-%d", j), txscript.OP_DUP)
	wit := wire.TxWitness{{}, c13Sig, c13Sig, {}, script}
	if w.scn.taproot() {
		// timeout: <receiver sig> <sender sig> <script> <control block>;
		// success: <sender sig> <receiver sig> <preimage> <script> <control block>
		wit = wire.TxWitness{c13Sig64, c13Sig64, script, w.ctrl}
		if h.In {
			wit = wire.TxWitness{c13Sig64, c13Sig64, {}, script, w.ctrl}
		}
	}
	tx.AddTxIn(&wire.TxIn{PreviousOutPoint: op, Witness: wit, Sequence: 1})
	tx.AddTxOut(&wire.TxOut{Value: commit.TxOut[slot].Value, PkScript: w.pk(fmt.Sprintf("second-level-%d", j))})
	if !h.In {
		tx.LockTime = h.Exp
	}
	return tx
}

func (w *c13World) htlcResolutions(k string) *lnwallet.HtlcResolutions {
	res := &lnwallet.HtlcResolutions{}
	commit := w.commits[k]
	for j, h := range w.scn.HTLCs {
		if h.Dust || !w.scn.onCommit(h, k) {
			continue
		}
		slot := c13OutHTLC0 + w.scn.slot(k, j)
		op := wire.OutPoint{Hash: commit.TxHash(), Index: uint32(slot)}
		htlcOut := commit.TxOut[slot]
		var known [32]byte
		if h.In && h.Pre == "known" {
			known = h.preimage()
		}
		if k == "local" {
			second := w.secondLevel(j)
			sd := &input.SignDetails{
				SignDesc:    w.signDesc(fmt.Sprintf("local-htlc-%d", j), htlcOut, txscript.OP_DUP),
				SigHashType: txscript.SigHashSingle | txscript.SigHashAnyOneCanPay,
				PeerSig:     w.peerSig,
			}
			if w.scn.legacy() {
				sd = nil
			}
			sweepDesc := w.signDesc(fmt.Sprintf("second-level-%d", j), second.TxOut[0], txscript.OP_IF)
			claim := wire.OutPoint{Hash: second.TxHash(), Index: 0}
			if h.In {
				if h.Pre == "known" {
					// lnwallet fills in a preimage it finds in the cache at close time.
					i := 3
					if w.scn.taproot() {
						i = 2
					}
					second.TxIn[0].Witness[i] = known[:]
				}
				res.IncomingHTLCs = append(res.IncomingHTLCs, lnwallet.IncomingHtlcResolution{
					Preimage: known, SignedSuccessTx: second, SignDetails: sd, CsvDelay: c13CsvLocal,
					ClaimOutpoint: claim, SweepSignDesc: sweepDesc,
				})
			} else {
				res.OutgoingHTLCs = append(res.OutgoingHTLCs, lnwallet.OutgoingHtlcResolution{
					Expiry: h.Exp, SignedTimeoutTx: second, SignDetails: sd, CsvDelay: c13CsvLocal,
					ClaimOutpoint: claim, SweepSignDesc: sweepDesc,
				})
			}
			continue
		}
		desc := w.signDesc(fmt.Sprintf("%s-htlc-%d", k, j), htlcOut, txscript.OP_DUP)
		if h.In {
			res.IncomingHTLCs = append(res.IncomingHTLCs, lnwallet.IncomingHtlcResolution{
				Preimage: known, ClaimOutpoint: op, SweepSignDesc: desc, CsvDelay: 1,
			})
		} else {
			res.OutgoingHTLCs = append(res.OutgoingHTLCs, lnwallet.OutgoingHtlcResolution{
				Expiry: h.Exp, ClaimOutpoint: op, SweepSignDesc: desc, CsvDelay: 1,
			})
		}
	}
	return res
}

func (w *c13World) closeSummary(t channeldb.ClosureType, sp *c13Spend) *channeldb.ChannelCloseSummary {
	return &channeldb.ChannelCloseSummary{
		ChanPoint:   w.funding,
		ClosingTXID: sp.tx.TxHash(),
		Capacity:    1_000_000,
		CloseHeight: uint32(sp.height),
		CloseType:   t,
		IsPending:   true,
	}
}

func (w *c13World) spendDetail(op wire.OutPoint, sp *c13Spend) *chainntnfs.SpendDetail {
	h := sp.tx.TxHash()
	o := op
	return &chainntnfs.SpendDetail{
		SpentOutPoint: &o, SpenderTxHash: &h, SpendingTx: sp.tx.Copy(),
		SpenderInputIndex: sp.idx, SpendingHeight: sp.height,
	}
}

// deliverCloseEvent plays the chain watcher: the funding output is spent, the
// channel is still open in the database, so the matching close event is handed to
// the arbitrator's subscription.
func (w *c13World) deliverCloseEvent() {
	n := w.node
	sp := w.spent[w.funding]
	if n == nil || n.events == nil || sp == nil {
		return
	}
	var kind string
	for k, tx := range w.commits {
		if tx.TxHash() == sp.tx.TxHash() {
			kind = k
		}
	}
	det := w.spendDetail(w.funding, sp)
	w.logf("  chain watcher: funding output spent by %s at height %d -> close event", w.tagOf(sp.tx.TxHash()), sp.height)
	var anchor *lnwallet.AnchorResolution
	if w.scn.Anchor && kind != "coop" {
		anchor = w.anchorRes(kind)
	}
	switch kind {
	case "coop":
		select {
		case n.events.CooperativeClosure <- &CooperativeCloseInfo{
			ChannelCloseSummary: w.closeSummary(channeldb.CooperativeClose, sp)}:
		default:
		}
	case "local":
		var cr *lnwallet.CommitOutputResolution
		if w.scn.ToLocal {
			cr = w.commitRes("local")
		}
		select {
		case n.events.LocalUnilateralClosure <- &LocalUnilateralCloseInfo{
			SpendDetail: det,
			LocalForceCloseSummary: &lnwallet.LocalForceCloseSummary{
				ChanPoint: w.funding, CloseTx: sp.tx.Copy(),
				ContractResolutions: fn.Some(lnwallet.ContractResolutions{
					CommitResolution: cr, AnchorResolution: anchor,
					HtlcResolutions: w.htlcResolutions("local"),
				}),
			},
			ChannelCloseSummary: w.closeSummary(channeldb.LocalForceClose, sp),
			CommitSet:           w.commitSet(LocalHtlcSet),
		}:
		default:
		}
	case "remote", "pending":
		key := RemoteHtlcSet
		if kind == "pending" {
			key = RemotePendingHtlcSet
		}
		var cr *lnwallet.CommitOutputResolution
		if w.scn.ToLocal {
			cr = w.commitRes(kind)
		}
		select {
		case n.events.RemoteUnilateralClosure <- &RemoteUnilateralCloseInfo{
			UnilateralCloseSummary: &lnwallet.UnilateralCloseSummary{
				SpendDetail:         det,
				ChannelCloseSummary: *w.closeSummary(channeldb.RemoteForceClose, sp),
				CommitResolution:    cr,
				HtlcResolutions:     w.htlcResolutions(kind),
				AnchorResolution:    anchor,
			},
			CommitSet: w.commitSet(key),
		}:
		default:
		}
	case "revoked":
		select {
		case n.events.ContractBreach <- &BreachCloseInfo{
			BreachResolution: &BreachResolution{FundingOutPoint: w.funding},
			AnchorResolution: anchor,
			CommitHash:       sp.tx.TxHash(),
			CommitSet:        w.commitSet(RemoteHtlcSet),
			CloseSummary:     *w.closeSummary(channeldb.BreachClose, sp),
		}:
		default:
		}
	}
}

// ---------------------------------------------------------------------------
// Chain mechanics
// ---------------------------------------------------------------------------

func (w *c13World) exists(op wire.OutPoint) (int32, bool) {
	if op == w.funding {
		return c13H0 - 10, true
	}
	m, ok := w.chain[op.Hash]
	if !ok || int(op.Index) >= len(m.tx.TxOut) {
		return 0, false
	}
	return m.height, true
}

func (w *c13World) inMempool(op wire.OutPoint) bool {
	for _, m := range w.mempool {
		for _, in := range m.tx.TxIn {
			if in.PreviousOutPoint == op {
				return true
			}
		}
	}
	return false
}

func (w *c13World) addMempool(tx *wire.MsgTx, minH int32, ours, front bool) {
	h := tx.TxHash()
	if _, ok := w.chain[h]; ok {
		return
	}
	for _, m := range w.mempool {
		if m.tx.TxHash() == h {
			return
		}
	}
	if ours {
		// A received HTLC whose claim loses the race: nothing we publish to spend its
		// output confirms before the remote party's timeout spend (block Exp+1).
		for _, in := range tx.TxIn {
			if r, ok := w.roles[in.PreviousOutPoint]; ok && r.kind == "htlc" {
				if ht := w.scn.HTLCs[r.htlc]; ht.In && ht.Pre == "late-lost" && minH < int32(ht.Exp)+2 {
					minH = int32(ht.Exp) + 2
				}
			}
		}
	}
	m := &c13MemTx{tx: tx, minH: minH, ours: ours}
	w.mempoolNotify(tx)
	if front {
		w.mempool = append([]*c13MemTx{m}, w.mempool...)
	} else {
		w.mempool = append(w.mempool, m)
	}
	w.logf("  mempool += %s (earliest block %d)", w.tagOf(h), minH)
}

// mempoolNotify queues, for a transaction that just entered the mempool, the
// notifications of the mempool watcher (full-node backends only) to the live
// node's subscribers of the outpoints it spends. The world lock is held.
func (w *c13World) mempoolNotify(tx *wire.MsgTx) {
	n := w.node
	if !w.scn.Mempool || n == nil || n.dead.Load() || w.crashed.Load() {
		return
	}
	h := tx.TxHash()
	for i, in := range tx.TxIn {
		op := in.PreviousOutPoint
		for _, sub := range n.memSubs[op] {
			ch := sub.ch
			det := &chainntnfs.SpendDetail{SpentOutPoint: &op, SpenderTxHash: &h, SpendingTx: tx.Copy(),
				SpenderInputIndex: uint32(i), SpendingHeight: 0}
			name := w.opName(op)
			n.enqueue("0-mempool:"+name, "mempool spend of "+name+" by "+w.tagOf(h), func() {
				select {
				case ch <- det:
				default:
				}
			})
		}
	}
}

// mine connects block h.
func (w *c13World) mine(h int32) []*c13MemTx {
	var rest, mined []*c13MemTx
	for _, m := range w.mempool {
		ok := m.minH <= h
		conflict := false
		for _, in := range m.tx.TxIn {
			if _, sp := w.spent[in.PreviousOutPoint]; sp {
				conflict = true
			}
			if _, ex := w.exists(in.PreviousOutPoint); !ex {
				ok = false
			}
		}
		switch {
		case conflict:
			w.logf("  mempool -= %s (input already spent)", w.tagOf(m.tx.TxHash()))
		case !ok:
			rest = append(rest, m)
		default:
			w.chain[m.tx.TxHash()] = &c13Mined{tx: m.tx, height: h}
			for i, in := range m.tx.TxIn {
				w.spent[in.PreviousOutPoint] = &c13Spend{tx: m.tx, idx: uint32(i), height: h, ours: m.ours}
			}
			mined = append(mined, m)
			w.logf("  block %d confirms %s", h, w.tagOf(m.tx.TxHash()))
		}
	}
	w.mempool = rest
	return mined
}

// witnessFor shapes the witness of a spend of op the way the real script paths do.
func (w *c13World) witnessFor(op wire.OutPoint, pre fn.Option[lntypes.Preimage], script []byte, byRemote bool) wire.TxWitness {
	r, ok := w.roles[op]
	tap := w.scn.taproot()
	if !ok || r.kind != "htlc" {
		if tap {
			return wire.TxWitness{c13Sig64}
		}
		return wire.TxWitness{c13Sig, script}
	}
	h := w.scn.HTLCs[r.htlc]
	p := h.preimage()
	pre.WhenSome(func(x lntypes.Preimage) { p = x })
	local := r.commit == "local"
	if tap {
		switch {
		case !h.In && local && byRemote:
			return wire.TxWitness{c13Sig64, p[:], script, w.ctrl} // remote claims with the preimage
		case !h.In && local:
			return wire.TxWitness{c13Sig64, c13Sig64, script, w.ctrl} // our second-level timeout
		case !h.In && byRemote:
			return wire.TxWitness{c13Sig64, c13Sig64, p[:], script, w.ctrl} // their second-level success
		case !h.In:
			return wire.TxWitness{c13Sig64, script, w.ctrl} // our direct timeout
		case local:
			return wire.TxWitness{c13Sig64, c13Sig64, p[:], script, w.ctrl} // our second-level success
		default:
			return wire.TxWitness{c13Sig64, p[:], script, w.ctrl} // our direct preimage spend
		}
	}
	switch {
	// Offered HTLC on our commitment.
	case !h.In && local && byRemote:
		return wire.TxWitness{c13Sig, p[:], script} // remote claims with the preimage
	case !h.In && local:
		return wire.TxWitness{{}, c13Sig, c13Sig, {}, script} // our second-level timeout
	// Offered HTLC on their commitment.
	case !h.In && byRemote:
		return wire.TxWitness{{}, c13Sig, c13Sig, p[:], script} // their second-level success
	case !h.In:
		return wire.TxWitness{c13Sig, {}, script} // our direct timeout
	// Received HTLC on our commitment: our second-level success.
	case local:
		return wire.TxWitness{{}, c13Sig, c13Sig, p[:], script}
	// Received HTLC on their commitment: our direct preimage spend.
	default:
		return wire.TxWitness{c13Sig, p[:], script}
	}
}

// nurseryBeat is the utxo nursery's reaction to block h (legacy channels): it
// broadcasts the timeout transaction of an incubated offered HTLC once its CLTV
// allows and sweeps the second-level output once its CSV allows. Its store is
// durable; like the sweeper it only acts while the node is up.
func (w *c13World) nurseryBeat(h int32) {
	for _, kid := range w.nursery {
		second := w.secondLevel(kid.j)
		w.tag(second, "second-level("+w.scn.HTLCs[kid.j].name()+")")
		htlcOp := second.TxIn[0].PreviousOutPoint
		if !kid.in {
			_, ex := w.exists(htlcOp)
			_, sp := w.spent[htlcOp]
			if ex && !sp && !w.inMempool(htlcOp) && int32(second.LockTime)+1 <= h+1 {
				w.addMempool(second, h+1, true, false)
			}
		}
		claim := wire.OutPoint{Hash: second.TxHash(), Index: 0}
		confH, ex := w.exists(claim)
		if _, sp := w.spent[claim]; !ex || sp || w.inMempool(claim) || confH+c13CsvLocal > h+1 {
			continue
		}
		tx := wire.NewMsgTx(2)
		tx.AddTxIn(&wire.TxIn{PreviousOutPoint: claim, Witness: wire.TxWitness{c13Sig, {}, c13Script("second-level", txscript.OP_IF)}})
		tx.AddTxOut(&wire.TxOut{Value: second.TxOut[0].Value, PkScript: c13P2WSH("wallet-" + w.opName(claim))})
		w.tag(tx, "nursery-sweep("+w.opName(claim)+")")
		w.addMempool(tx, h+1, true, false)
	}
}

// sweeperBeat is the sweeper's reaction to block h (it runs after the arbitrator
// in lnd's blockbeat queue): every input it holds that can be mined in block h+1
// is published in its own deterministic transaction.
func (w *c13World) sweeperBeat(h int32) {
	n := w.node
	if n == nil || n.dead.Load() {
		return
	}
	w.nurseryBeat(h)
	ops := make([]wire.OutPoint, 0, len(n.sweeps))
	for op := range n.sweeps {
		ops = append(ops, op)
	}
	sort.Slice(ops, func(i, j int) bool { return w.opName(ops[i]) < w.opName(ops[j]) })
	for _, op := range ops {
		s := n.sweeps[op]
		confH, ok := w.exists(op)
		if !ok || w.inMempool(op) {
			continue
		}
		if _, sp := w.spent[op]; sp {
			continue
		}
		mature := confH + int32(s.inp.BlocksToMaturity())
		if lt, ok := s.inp.RequiredLockTime(); ok && int32(lt)+1 > mature {
			mature = int32(lt) + 1
		}
		if mature > h+1 {
			continue
		}
		if r, ok := w.roles[op]; ok && r.kind == "htlc" && w.scn.HTLCs[r.htlc].In {
			// The network only accepts a success spend that reveals the HTLC's
			// preimage.
			good := w.scn.HTLCs[r.htlc].preimage()
			valid := true
			s.inp.Preimage().WhenSome(func(p lntypes.Preimage) { valid = p == good })
			if !valid {
				w.logf("  sweeper: spend of %s carries a preimage that does not open the HTLC: rejected by the network", w.opName(op))
				continue
			}
		}
		tx := wire.NewMsgTx(2)
		script := s.inp.SignDesc().WitnessScript
		tx.AddTxIn(&wire.TxIn{PreviousOutPoint: op, Witness: w.witnessFor(op, s.inp.Preimage(), script, false)})
		if ro := s.inp.RequiredTxOut(); ro != nil {
			tx.AddTxOut(ro)
		} else {
			tx.AddTxOut(&wire.TxOut{Value: s.inp.SignDesc().Output.Value, PkScript: c13P2WSH("wallet-" + w.opName(op))})
		}
		if lt, ok := s.inp.RequiredLockTime(); ok {
			tx.LockTime = lt
		}
		if r, ok := w.roles[op]; ok && r.kind == "anchor" {
			w.tag(tx, "anchor-sweep("+w.opName(op)+")")
		} else {
			w.tag(tx, "sweep("+w.opName(op)+")")
		}
		w.addMempool(tx, h+1, true, false)
	}
}

// remoteTxs inserts what the other party (or the breach arbitrator's view of the
// chain) contributes for block h.
func (w *c13World) remoteTxs(h int32) {
	closeKind := map[string]string{"coop": "coop", "remote": "remote", "pending": "pending", "breach": "revoked"}[w.scn.Close]
	if closeKind != "" && w.scn.CloseAt == h {
		w.addMempool(w.commits[closeKind], h, false, true)
	}
	w.remoteClaims(h, h, false)
	// The remote party takes back, through the timeout path, a received HTLC that
	// we did not manage to claim in time.
	for j, ht := range w.scn.HTLCs {
		if !ht.In || ht.Pre != "late-lost" || int32(ht.Exp)+1 != h {
			continue
		}
		for _, op := range w.htlcOutpoints(j) {
			if _, sp := w.spent[op]; sp {
				continue
			}
			tx := wire.NewMsgTx(2)
			tx.LockTime = ht.Exp
			script := c13Script(fmt.Sprintf("%s-htlc-%d", w.roles[op].commit, j), txscript.OP_DUP)
			// <remote sig> <> <script> (their commitment: second-level timeout
			// <0> <sig> <sig> <> <script>); taproot: <sig> [<sig>] <script> <ctrl>.
			wit := wire.TxWitness{c13Sig, {}, script}
			switch {
			case w.scn.taproot() && w.roles[op].commit == "local":
				wit = wire.TxWitness{c13Sig64, script, w.ctrl}
			case w.scn.taproot():
				wit = wire.TxWitness{c13Sig64, c13Sig64, script, w.ctrl}
			case w.roles[op].commit != "local":
				wit = wire.TxWitness{{}, c13Sig, c13Sig, {}, script}
			}
			tx.AddTxIn(&wire.TxIn{PreviousOutPoint: op, Witness: wit})
			tx.AddTxOut(&wire.TxOut{Value: 1, PkScript: c13P2WSH("remote-wallet")})
			w.tag(tx, "remote-timeout("+ht.name()+")")
			w.addMempool(tx, h, false, true)
		}
	}
}

// htlcOutpoints lists the existing (confirmed) commitment outputs of HTLC j in a
// canonical order.
func (w *c13World) htlcOutpoints(j int) []wire.OutPoint {
	var ops []wire.OutPoint
	for op, r := range w.roles {
		if r.kind != "htlc" || r.htlc != j {
			continue
		}
		if _, ok := w.exists(op); ok {
			ops = append(ops, op)
		}
	}
	sort.Slice(ops, func(a, b int) bool { return w.opName(ops[a]) < w.opName(ops[b]) })
	return ops
}

// remoteClaims puts the remote party's preimage spends that confirm in block at
// into the mempool (earliest block minH). relayed: only those that are relayed
// through our mempool before they confirm ("claim"; a "claim-direct" spend is first
// seen in the block that confirms it).
func (w *c13World) remoteClaims(at, minH int32, relayed bool) {
	for j, ht := range w.scn.HTLCs {
		if ht.In || !(ht.Pre == "claim" || (ht.Pre == "claim-direct" && !relayed)) || ht.At != at {
			continue
		}
		for _, op := range w.htlcOutpoints(j) {
			r := w.roles[op]
			tx := wire.NewMsgTx(2)
			script := c13Script(fmt.Sprintf("%s-htlc-%d", r.commit, j), txscript.OP_DUP)
			tx.AddTxIn(&wire.TxIn{PreviousOutPoint: op, Witness: w.witnessFor(op, fn.None[lntypes.Preimage](), script, true)})
			tx.AddTxOut(&wire.TxOut{Value: 1, PkScript: c13P2WSH("remote-wallet")})
			w.tag(tx, "remote-claim("+ht.name()+")")
			w.addMempool(tx, minH, false, true)
		}
	}
}

// ---------------------------------------------------------------------------
// One node generation ("process")
// ---------------------------------------------------------------------------

type c13SweepReq struct {
	inp   input.Input
	chans []chan sweep.Result
}

type c13EpochReg struct {
	ch    chan *chainntnfs.BlockEpoch
	ident string
}

type c13Node struct {
	w    *c13World
	gen  int
	dead atomic.Bool
	mode string // open | pending-close | gone
	db   *c13DB
	arb  *ChannelArbitrator
	log  ArbitratorLog

	events     *ChainEventSubscription
	spendRegs  map[wire.OutPoint][]*chainntnfs.SpendEvent
	epochRegs  []*c13EpochReg
	sweeps     map[wire.OutPoint]*c13SweepReq
	preSubs    []chan lntypes.Preimage
	breachSubs []chan struct{}
	memSubs    map[wire.OutPoint][]*c13MemSub  // mempool watcher subscriptions
	hodlSubs   map[uint64][]chan<- interface{} // invoice registry: hodl subscribers per received HTLC index
	chainArb   *ChainArbitrator                // only used for ForceCloseContract
	resolved   chan struct{}
	idle       bool // nothing left to run for this channel
	closedMem  bool

	// queue holds answers the chain backend owes the node for things that are
	// already on chain when asked (historical spend dispatch, results for inputs
	// that are already spent, the current block on an epoch registration). They
	// are delivered one at a time in a canonical order, each followed by
	// quiescence, so that the order in which resolvers make progress - and hence
	// which write is the k-th - does not depend on Go map iteration order inside
	// lnd or on the scheduler.
	queue []*c13Delivery
	ident map[uint64]string // goroutine id -> the contract that goroutine works on
	seq   int
}

type c13Delivery struct {
	key  string
	what string
	fn   func()
}

// c13Goid returns the id of the calling goroutine (used only to give epoch
// registrations, which carry no argument, a stable identity).
func c13Goid() uint64 {
	var buf [64]byte
	s := string(buf[:runtime.Stack(buf[:], false)])
	s = strings.TrimPrefix(s, "goroutine ")
	if i := strings.IndexByte(s, ' '); i > 0 {
		s = s[:i]
	}
	var id uint64
	fmt.Sscan(s, &id)
	return id
}

func (n *c13Node) enqueue(key, what string, fn func()) {
	n.seq++
	n.queue = append(n.queue, &c13Delivery{key: fmt.Sprintf("%s#%06d", key, n.seq), what: what, fn: fn})
}

// next pops the canonical-first queued delivery.
func (w *c13World) next() *c13Delivery {
	w.mu.Lock()
	defer w.mu.Unlock()
	n := w.node
	if n == nil || len(n.queue) == 0 {
		return nil
	}
	sort.SliceStable(n.queue, func(i, j int) bool { return n.queue[i].key < n.queue[j].key })
	d := n.queue[0]
	n.queue = n.queue[1:]
	return d
}

// enter is the first statement of every harness-owned dependency: it takes the
// world lock, or never returns if the calling process is dead.
func (n *c13Node) enter() { n.enterAs("") }

// enterAs is enter for a dependency that is a closure (name: the config field).
func (n *c13Node) enterAs(name string) {
	n.w.mu.Lock()
	if n.dead.Load() || n.w.crashed.Load() {
		n.w.mu.Unlock()
		n.w.refuse(c13ParkedDep, name)
	}
}

func (n *c13Node) leave() { n.w.mu.Unlock() }

// write is one durable side-store transaction.
func (n *c13Node) write(label string, evs ...c13Event) error {
	return n.db.update(label, func(tx walletdb.ReadWriteTx) error {
		return c13PutEvents(tx, evs...)
	}, func() {})
}

// --- notifier ---------------------------------------------------------------

type c13Notifier struct{ n *c13Node }

var _ chainntnfs.ChainNotifier = (*c13Notifier)(nil)

func (x *c13Notifier) RegisterConfirmationsNtfn(*chainhash.Hash, []byte, uint32, uint32,
	...chainntnfs.NotifierOption) (*chainntnfs.ConfirmationEvent, error) {

	x.n.enter()
	defer x.n.leave()
	x.n.w.anomaly("RegisterConfirmationsNtfn-called(not modelled)")
	return nil, errors.New("c13: confirmation notifications are not modelled")
}

func (x *c13Notifier) RegisterSpendNtfn(op *wire.OutPoint, _ []byte, hint uint32) (*chainntnfs.SpendEvent, error) {
	n := x.n
	n.enter()
	defer n.leave()
	w := n.w
	ev := chainntnfs.NewSpendEvent(func() {})
	name := w.opName(*op)
	n.ident[c13Goid()] = name
	if sp, ok := w.spent[*op]; ok && int32(hint) > sp.height {
		// The historical rescan starts at the height hint: a spend below it is
		// never found (lnd's notifiers trust the hint).
		w.logf("    notifier: %s was spent at height %d, below the height hint %d: the rescan misses it", name, sp.height, hint)
		n.spendRegs[*op] = append(n.spendRegs[*op], ev)
		return ev, nil
	}
	if sp, ok := w.spent[*op]; ok {
		w.logf("    notifier: %s is already spent on chain (%s): historical dispatch queued", name, w.tagOf(sp.tx.TxHash()))
		det := w.spendDetail(*op, sp)
		n.enqueue("1-spend:"+name, "historical spend of "+name, func() { ev.Spend <- det })
		return ev, nil
	}
	w.logf("    notifier: watching %s", name)
	n.spendRegs[*op] = append(n.spendRegs[*op], ev)
	return ev, nil
}

func (x *c13Notifier) RegisterBlockEpochNtfn(*chainntnfs.BlockEpoch) (*chainntnfs.BlockEpochEvent, error) {
	n := x.n
	n.enter()
	defer n.leave()
	id, ok := n.ident[c13Goid()]
	if !ok {
		n.seq++
		id = fmt.Sprintf("~anonymous-%06d", n.seq)
	}
	reg := &c13EpochReg{ch: make(chan *chainntnfs.BlockEpoch, 1024), ident: id}
	h := n.w.height.Load()
	// The notifier sends the current block right after the registration.
	n.enqueue("3-epoch:"+id, fmt.Sprintf("current block %d to the new epoch subscription of %s", h, id), func() {
		reg.ch <- &chainntnfs.BlockEpoch{Height: h, Hash: &chainhash.Hash{}}
	})
	n.epochRegs = append(n.epochRegs, reg)
	return &chainntnfs.BlockEpochEvent{
		Epochs: reg.ch,
		Cancel: func() {
			n.w.mu.Lock()
			defer n.w.mu.Unlock()
			for i, r := range n.epochRegs {
				if r == reg {
					n.epochRegs = append(n.epochRegs[:i:i], n.epochRegs[i+1:]...)
					break
				}
			}
		},
	}, nil
}

func (x *c13Notifier) Start() error  { return nil }
func (x *c13Notifier) Started() bool { return true }
func (x *c13Notifier) Stop() error   { return nil }

// --- sweeper ----------------------------------------------------------------

type c13Sweeper struct{ n *c13Node }

var _ UtxoSweeper = (*c13Sweeper)(nil)

func (s *c13Sweeper) result(sp *c13Spend) sweep.Result {
	r := sweep.Result{Tx: sp.tx.Copy()}
	if !sp.ours {
		r.Err = sweep.ErrRemoteSpend
	}
	return r
}

// c13InputContent renders everything a resolver decides about an input it hands
// to the sweeper (not its height hint, which is a search bound).
func c13InputContent(w *c13World, inp input.Input, p sweep.Params) string {
	sd := inp.SignDesc()
	lock := "none"
	if lt, ok := inp.RequiredLockTime(); ok {
		lock = fmt.Sprint(lt)
	}
	out := "nil"
	if sd.Output != nil {
		h := sha256.Sum256(sd.Output.PkScript)
		out = fmt.Sprintf("%d/%x", sd.Output.Value, h[:4])
	}
	req := "none"
	if ro := inp.RequiredTxOut(); ro != nil {
		h := sha256.Sum256(ro.PkScript)
		req = fmt.Sprintf("%d/%x", ro.Value, h[:4])
	}
	ws := sha256.Sum256(sd.WitnessScript)
	c := fmt.Sprintf("type=%v locktime=%s csv=%d signdesc{out=%s script=%d/%x ctrlblock=%d taptweak=%d hashtype=%d method=%d tweak=%v key=%v} required_out=%s preimage=%v",
		inp.WitnessType(), lock, inp.BlocksToMaturity(), out, len(sd.WitnessScript), ws[:4], len(sd.ControlBlock), len(sd.TapTweak),
		sd.HashType, sd.SignMethod, sd.SingleTweak != nil, sd.KeyDesc.PubKey != nil, req, inp.Preimage().IsSome())
	if r, ok := w.roles[inp.OutPoint()]; ok && r.kind == "anchor" {
		// Anchors are offered with situation-dependent CPFP parameters.
		return c
	}
	dl := "none"
	p.DeadlineHeight.WhenSome(func(d int32) { dl = fmt.Sprint(d) })
	return c + fmt.Sprintf(" budget=%d deadline=%s", p.Budget, dl)
}

func (s *c13Sweeper) SweepInput(inp input.Input, params sweep.Params) (chan sweep.Result, error) {
	n := s.n
	n.enter()
	defer n.leave()
	op := inp.OutPoint()
	w := n.w
	w.obs.Offered = c13ListAdd(w.obs.Offered, fmt.Sprintf("%s/%v", w.opName(op), inp.WitnessType()))
	w.obs.OfferContent[w.opName(op)] = c13ListAdd(w.obs.OfferContent[w.opName(op)], c13InputContent(w, inp, params))
	rc := make(chan sweep.Result, 1)
	n.ident[c13Goid()] = w.opName(op)
	if sp, ok := w.spent[op]; ok {
		w.logf("    sweeper: %s offered, already spent by %s: result queued", w.opName(op), w.tagOf(sp.tx.TxHash()))
		res := s.result(sp)
		n.enqueue("2-sweep:"+w.opName(op), "sweep result for the already spent "+w.opName(op), func() { rc <- res })
		return rc, nil
	}
	w.logf("    sweeper: %s offered (%v)", w.opName(op), inp.WitnessType())
	req := n.sweeps[op]
	if req == nil {
		req = &c13SweepReq{}
		n.sweeps[op] = req
	}
	req.inp = inp
	req.chans = append(req.chans, rc)
	return rc, nil
}

func (s *c13Sweeper) RelayFeePerKW() chainfee.SatPerKWeight { return 253 }

func (s *c13Sweeper) UpdateParams(op wire.OutPoint, _ sweep.Params) (chan sweep.Result, error) {
	n := s.n
	n.enter()
	defer n.leave()
	rc := make(chan sweep.Result, 1)
	if req := n.sweeps[op]; req != nil {
		req.chans = append(req.chans, rc)
	}
	return rc, nil
}

// --- mempool watcher (full-node backends) -----------------------------------------

type c13MemSub struct {
	ev *chainntnfs.MempoolSpendEvent
	ch chan *chainntnfs.SpendDetail
}

// c13Mempool is the chain backend's mempool watcher: a subscription is told about
// transactions that enter the mempool after it was made.
type c13Mempool struct{ n *c13Node }

var _ chainntnfs.MempoolWatcher = (*c13Mempool)(nil)

func (m *c13Mempool) SubscribeMempoolSpent(op wire.OutPoint) (*chainntnfs.MempoolSpendEvent, error) {
	n := m.n
	n.enter()
	defer n.leave()
	ch := make(chan *chainntnfs.SpendDetail, 16)
	ev := &chainntnfs.MempoolSpendEvent{Spend: ch}
	n.memSubs[op] = append(n.memSubs[op], &c13MemSub{ev: ev, ch: ch})
	n.w.logf("    mempool watcher: watching %s", n.w.opName(op))
	return ev, nil
}

func (m *c13Mempool) CancelMempoolSpendEvent(ev *chainntnfs.MempoolSpendEvent) {
	n := m.n
	n.enter()
	defer n.leave()
	for op, subs := range n.memSubs {
		for i, sub := range subs {
			if sub.ev == ev {
				n.memSubs[op] = append(subs[:i:i], subs[i+1:]...)
				return
			}
		}
	}
}

func (m *c13Mempool) LookupInputMempoolSpend(op wire.OutPoint) fn.Option[wire.MsgTx] {
	n := m.n
	n.enter()
	defer n.leave()
	for _, mt := range n.w.mempool {
		for _, in := range mt.tx.TxIn {
			if in.PreviousOutPoint == op {
				return fn.Some(*mt.tx.Copy())
			}
		}
	}
	return fn.None[wire.MsgTx]()
}

// --- witness beacon, registry, chain io, channel ------------------------------

type c13Beacon struct{ n *c13Node }

func (b *c13Beacon) SubscribeUpdates(_ lnwire.ShortChannelID, htlc *channeldb.HTLC, _ *hop.Payload,
	_ []byte) (*WitnessSubscription, error) {

	b.n.enter()
	defer b.n.leave()
	if htlc != nil {
		b.n.w.checkHash("SubscribeUpdates", htlc.RHash)
	}
	ch := make(chan lntypes.Preimage, 8)
	b.n.preSubs = append(b.n.preSubs, ch)
	return &WitnessSubscription{WitnessUpdates: ch, CancelSubscription: func() {}}, nil
}

func (b *c13Beacon) LookupPreimage(h lntypes.Hash) (lntypes.Preimage, bool) {
	b.n.enter()
	defer b.n.leave()
	b.n.w.checkHash("LookupPreimage", h)
	p, ok := b.n.w.knownPre[h]
	return p, ok
}

func (b *c13Beacon) AddPreimages(ps ...lntypes.Preimage) error {
	var evs []c13Event
	b.n.enter()
	for _, p := range ps {
		b.n.w.checkHash("AddPreimages", p.Hash())
	}
	b.n.leave()
	for _, p := range ps {
		evs = append(evs, c13Event{K: "preimage", Pre: hex.EncodeToString(p[:])})
	}
	if err := b.n.write("WitnessCache.AddPreimages", evs...); err != nil {
		return err
	}
	b.n.enter()
	defer b.n.leave()
	for _, p := range ps {
		b.n.w.knownPre[p.Hash()] = p
	}
	return nil
}

type c13ChainIO struct {
	lnwallet.BlockChainIO
	n *c13Node
}

func (c *c13ChainIO) GetBestBlock() (*chainhash.Hash, int32, error) {
	c.n.enter()
	defer c.n.leave()
	return &chainhash.Hash{}, c.n.w.height.Load(), nil
}

type c13Channel struct {
	n         *c13Node
	forbidden bool
}

func (c *c13Channel) ForceCloseChan() (*wire.MsgTx, error) {
	if c.forbidden {
		c.n.enter()
		c.n.w.anomaly("ForceCloseChan-on-pending-close-arbitrator(nil Channel in lnd)")
		c.n.leave()
		return nil, errors.New("c13: no channel")
	}
	if err := c.n.write("Channel.MarkBorked", c13Event{K: "borked"}); err != nil {
		return nil, err
	}
	return c.n.w.commits["local"].Copy(), nil
}

func (c *c13Channel) NewAnchorResolutions() (*lnwallet.AnchorResolutions, error) {
	c.n.enter()
	defer c.n.leave()
	w := c.n.w
	if c.forbidden {
		w.anomaly("NewAnchorResolutions-on-pending-close-arbitrator(nil Channel in lnd)")
		return nil, errors.New("c13: no channel")
	}
	res := &lnwallet.AnchorResolutions{}
	if w.scn.Anchor {
		res.Local = w.anchorRes("local")
		res.Remote = w.anchorRes("remote")
		if w.scn.HasPending {
			res.RemotePending = w.anchorRes("pending")
		}
	}
	return res, nil
}

// c13Onion is the package's mockOnionProcessor (every received HTLC is a forward)
// plus a note of which HTLC the calling goroutine works on.
type c13Onion struct {
	n     *c13Node
	inner *mockOnionProcessor
}

func (o *c13Onion) ReconstructHopIterator(r io.Reader, rHash []byte,
	bi hop.ReconstructBlindingInfo) (hop.Iterator, error) {

	o.n.enter()
	var ph lntypes.Hash
	copy(ph[:], rHash)
	o.n.w.checkHash("ReconstructHopIterator", ph)
	o.n.ident[c13Goid()] = "htlc-" + hex.EncodeToString(rHash[:6])
	inner := o.inner
	for j, h := range o.n.w.scn.HTLCs {
		if h.In && h.Inv != "" && c13HashOfPre(h.preimage()) == ph {
			// We are the exit hop: the onion carries the final amount and CLTV.
			amt := 10_000_000 * (j + 1)
			if h.Pre == "underpaid" {
				amt++
			}
			inner = &mockOnionProcessor{isExit: true, forwardAmount: amt, outgoingCltv: h.Exp}
		}
	}
	blob, _ := io.ReadAll(r)
	for j, h := range o.n.w.scn.HTLCs {
		if !h.In || c13HashOfPre(h.preimage()) != ph {
			continue
		}
		if bi.IncomingAmt != lnwire.MilliSatoshi(10_000_000*(j+1)) || bi.IncomingExpiry != h.Exp {
			// The hop payload is reconstructed from the HTLC's own amount and expiry.
			o.n.w.anomaly(fmt.Sprintf("onion-decoded-with-foreign-htlc-details:%s(amt=%d,expiry=%d)", h.name(), bi.IncomingAmt, bi.IncomingExpiry))
		}
		if !bytes.Equal(blob, c13OnionBlob(h)) {
			o.n.w.anomaly(fmt.Sprintf("onion-decoded-from-foreign-packet:%s", h.name()))
		}
	}
	it, err := inner.ReconstructHopIterator(bytes.NewReader(blob), rHash, bi)
	o.n.leave()
	return it, err
}

type c13HtlcNotifier struct{ n *c13Node }

func (h *c13HtlcNotifier) NotifyFinalHtlcEvent(key models.CircuitKey, _ channeldb.FinalHtlcInfo) {
	h.n.enter()
	h.n.w.checkReceived("NotifyFinalHtlcEvent", key.HtlcID)
	h.n.leave()
}

// ---------------------------------------------------------------------------
// Starting a node the way ChainArbitrator.Start does
// ---------------------------------------------------------------------------

func c13Report(r *channeldb.ResolverReport, w *c13World) string {
	sp := "-"
	if r.SpendTxID != nil {
		sp = w.tagOf(*r.SpendTxID)
	}
	pfx := ""
	if r.ResolverType == channeldb.ResolverTypeAnchor {
		pfx = "anchor-report:"
	}
	return fmt.Sprintf("%s%s amt=%d type=%d outcome=%d spend=%s", pfx, w.opName(r.OutPoint), r.Amount, r.ResolverType, r.ResolverOutcome, sp)
}

func (w *c13World) config(n *c13Node) ChannelArbitratorConfig {
	chainCfg := ChainArbitratorConfig{
		ChainIO:                &c13ChainIO{n: n},
		IncomingBroadcastDelta: 5,
		OutgoingBroadcastDelta: 5,
		PublishTx: func(tx *wire.MsgTx, _ string) error {
			n.enterAs("PublishTx")
			defer n.leave()
			w.obs.Published = c13ListAdd(w.obs.Published, w.tagOf(tx.TxHash()))
			w.logf("    PublishTx %s", w.tagOf(tx.TxHash()))
			w.addMempool(tx.Copy(), w.height.Load()+1, true, false)
			return nil
		},
		DeliverResolutionMsg: func(msgs ...ResolutionMsg) error {
			var evs []c13Event
			n.enterAs("DeliverResolutionMsg")
			for _, m := range msgs {
				w.checkOffered("DeliverResolutionMsg", m.HtlcIndex)
				if m.PreImage != nil {
					// The settle must carry the preimage of that very HTLC.
					for _, h := range w.scn.HTLCs {
						if !h.In && h.Idx == m.HtlcIndex && h.preimage() != lntypes.Preimage(*m.PreImage) {
							w.anomaly(fmt.Sprintf("settle-with-foreign-preimage:out%d", m.HtlcIndex))
						}
					}
				}
			}
			n.leave()
			for _, m := range msgs {
				evs = append(evs, c13Event{K: "msg", Idx: m.HtlcIndex, Settle: m.PreImage != nil,
					Comment: fmt.Sprintf("failure=%v", m.Failure != nil)})
			}
			return n.write("Switch.DeliverResolutionMsg", evs...)
		},
		Notifier: &c13Notifier{n: n},
		Mempool:  w.mempoolWatcher(n),
		IncubateOutputs: func(_ wire.OutPoint, out fn.Option[lnwallet.OutgoingHtlcResolution],
			in fn.Option[lnwallet.IncomingHtlcResolution], _ uint32, _ fn.Option[int32], _ ...IncubateOption) error {

			n.enterAs("IncubateOutputs")
			if !w.scn.legacy() {
				w.anomaly("IncubateOutputs-called-on-a-non-legacy-channel")
				n.leave()
				return nil
			}
			var evs []c13Event
			find := func(tx *wire.MsgTx, incoming bool) {
				if tx == nil {
					w.anomaly("IncubateOutputs-without-second-level-tx")
					return
				}
				r, ok := w.roles[tx.TxIn[0].PreviousOutPoint]
				if !ok || r.kind != "htlc" || w.scn.HTLCs[r.htlc].In != incoming {
					w.anomaly("IncubateOutputs-for-unknown-htlc-output")
					return
				}
				evs = append(evs, c13Event{K: "incubate", Idx: uint64(r.htlc), Settle: incoming})
			}
			out.WhenSome(func(r lnwallet.OutgoingHtlcResolution) { find(r.SignedTimeoutTx, false) })
			in.WhenSome(func(r lnwallet.IncomingHtlcResolution) { find(r.SignedSuccessTx, true) })
			n.leave()
			if len(evs) == 0 {
				return nil
			}
			if err := n.write("NurseryStore.Incubate", evs...); err != nil {
				return err
			}
			n.enterAs("IncubateOutputs")
			for _, ev := range evs {
				w.incubate(int(ev.Idx), ev.Settle)
			}
			n.leave()
			return nil
		},
		PreimageDB:     &c13Beacon{n: n},
		Sweeper:        &c13Sweeper{n: n},
		Registry:       &c13RegistryImpl{n: n},
		OnionProcessor: &c13Onion{n: n, inner: &mockOnionProcessor{}},
		IsForwardedHTLC: func(_ lnwire.ShortChannelID, idx uint64) bool {
			n.enterAs("IsForwardedHTLC")
			defer n.leave()
			w.checkOffered("IsForwardedHTLC", idx)
			return true
		},
		Clock: clock.NewTestClock(time.Unix(1_700_000_000, 0)),
		SubscribeBreachComplete: func(_ *wire.OutPoint, c chan struct{}) (bool, error) {
			n.enterAs("SubscribeBreachComplete")
			defer n.leave()
			if w.justice {
				return true, nil
			}
			n.breachSubs = append(n.breachSubs, c)
			return false, nil
		},
		PutFinalHtlcOutcome: func(_ lnwire.ShortChannelID, id uint64, settled bool) error {
			n.enterAs("PutFinalHtlcOutcome")
			w.checkReceived("PutFinalHtlcOutcome", id)
			n.leave()
			return n.write("PutFinalHtlcOutcome", c13Event{K: "final", Idx: id, Settle: settled})
		},
		HtlcNotifier: &c13HtlcNotifier{n: n},
		Budget:       *DefaultBudgetConfig(),
		QueryIncomingCircuit: func(models.CircuitKey) *models.CircuitKey {
			return nil
		},
	}
	return ChannelArbitratorConfig{
		ChanPoint:             w.funding,
		ShortChanID:           lnwire.NewShortChanIDFromInt(13),
		ChainArbitratorConfig: chainCfg,
		NotifyChannelResolved: func() {
			n.enterAs("NotifyChannelResolved")
			w.obs.Notified++
			// The statement's "marked fully resolved only after all contracts are
			// resolved", judged on what is on disk at this very moment.
			if un, err := w.rawLog.FetchUnresolvedContracts(); err == nil && len(un) > 0 {
				var ts []string
				for _, r := range un {
					ts = append(ts, c13TypeName(r))
				}
				sort.Strings(ts)
				w.anomaly("channel-resolved-with-unresolved-contracts:" + strings.Join(ts, ","))
			}
			if st, err := w.rawLog.CurrentState(nil); err == nil && st != StateFullyResolved {
				w.anomaly("channel-resolved-in-state:" + st.String())
			}
			w.logf("    NotifyChannelResolved")
			n.leave()
			n.resolved <- struct{}{}
		},
		PutResolverReport: func(tx kvdb.RwTx, r *channeldb.ResolverReport) error {
			ev := c13Event{K: "report", Report: c13Report(r, w)}
			if tx != nil {
				// Inside the caller's transaction (which holds the world lock).
				return c13PutEvents(tx, ev)
			}
			return n.write("PutResolverReport", ev)
		},
		FetchHistoricalChannel: func() (*chanstate.OpenChannel, error) {
			n.enterAs("FetchHistoricalChannel")
			defer n.leave()
			st := &chanstate.OpenChannel{
				ChanType:        w.scn.chanType(),
				FundingOutpoint: w.funding,
				IsInitiator:     w.scn.Chan != "lease-noninit",
			}
			st.LocalChanCfg.DelayBasePoint = keychain.KeyDescriptor{PubKey: w.delayKey}
			st.LocalChanCfg.PaymentBasePoint = keychain.KeyDescriptor{PubKey: w.payKey}
			if st.ChanType.HasLeaseExpiration() {
				st.ThawHeight = c13Thaw
			}
			return st, nil
		},
		FindOutgoingHTLCDeadline: func(h channeldb.HTLC) fn.Option[int32] {
			n.enterAs("FindOutgoingHTLCDeadline")
			defer n.leave()
			w.checkOffered("FindOutgoingHTLCDeadline", h.HtlcIndex)
			w.checkHash("FindOutgoingHTLCDeadline", h.RHash)
			if w.scn.NoUpstream {
				return fn.None[int32]()
			}
			// A forward: the expiry of the incoming HTLC it was forwarded from.
			for k, ht := range w.scn.HTLCs {
				if !ht.In && ht.Idx == h.HtlcIndex {
					return fn.Some(int32(ht.Exp) + 20 + 2*int32(k))
				}
			}
			return fn.None[int32]()
		},
	}
}

// mempoolWatcher is nil (an SPV backend) unless the scenario asks for a full node.
func (w *c13World) mempoolWatcher(n *c13Node) chainntnfs.MempoolWatcher {
	if !w.scn.Mempool {
		return nil
	}
	return &c13Mempool{n: n}
}

func (w *c13World) incubate(j int, in bool) {
	for _, k := range w.nursery {
		if k.j == j {
			return
		}
	}
	w.nursery = append(w.nursery, c13Kid{j: j, in: in})
}

// c13RegistryImpl is the invoice registry. Its state (per received exit-hop HTLC:
// accepted | settled | canceled) is durable: every change is one write
// transaction of channel.db (a stop point), w.inv is only a mirror rebuilt at every
// start. Replays answer the way lnd's registry does: a settled invoice settles
// again with the same preimage, a canceled one fails again, an accepted hold
// invoice stays undecided and the new subscriber is notified later.
type c13RegistryImpl struct{ n *c13Node }

var _ Registry = (*c13RegistryImpl)(nil)

// invoiceOf finds the received HTLC a payment hash belongs to.
func (w *c13World) invoiceOf(hash lntypes.Hash) (int, *c13HTLC) {
	for j := range w.scn.HTLCs {
		h := &w.scn.HTLCs[j]
		if h.In && c13HashOfPre(h.preimage()) == hash {
			return j, h
		}
	}
	return -1, nil
}

func (r *c13RegistryImpl) NotifyExitHopHtlc(hash lntypes.Hash, amt lnwire.MilliSatoshi, expiry uint32, height int32,
	key models.CircuitKey, hodl chan<- interface{}, _ lnwire.CustomRecords,
	_ invoices.Payload) (invoices.HtlcResolution, error) {

	n := r.n
	w := n.w
	n.enter()
	w.checkHash("NotifyExitHopHtlc", hash)
	w.checkReceived("NotifyExitHopHtlc", key.HtlcID)
	j, h := w.invoiceOf(hash)
	if h == nil || h.Inv == "" {
		n.leave()
		return invoices.NewFailResolution(key, height, invoices.ResultInvoiceNotFound), nil
	}
	if key.HtlcID != h.Idx || amt != lnwire.MilliSatoshi(10_000_000*(j+1)) || expiry != h.Exp {
		w.anomaly(fmt.Sprintf("exit-hop-htlc-notified-with-foreign-details:%s(id=%d,amt=%d,expiry=%d)", h.name(), key.HtlcID, amt, expiry))
	}
	st := w.inv[h.Idx]
	inv, idx, pre := h.Inv, h.Idx, h.preimage()
	n.leave()
	set := func(state string) error {
		if err := n.write("InvoiceRegistry."+state, c13Event{K: "invoice", Idx: idx, Comment: state}); err != nil {
			return err
		}
		n.enter()
		w.inv[idx] = state
		n.leave()
		return nil
	}
	switch {
	case inv == "canceled" || st == "canceled":
		return invoices.NewFailResolution(key, height, invoices.ResultInvoiceAlreadyCanceled), nil
	case st == "settled":
		return invoices.NewSettleResolution(pre, key, height, invoices.ResultReplayToSettled), nil
	case inv == "settle":
		if err := set("settled"); err != nil {
			return nil, err
		}
		return invoices.NewSettleResolution(pre, key, height, invoices.ResultSettled), nil
	}
	// A hold invoice: the HTLC is accepted and stays undecided until the user acts.
	if st == "" {
		if err := set("accepted"); err != nil {
			return nil, err
		}
	}
	if hodl != nil {
		n.enter()
		n.hodlSubs[idx] = append(n.hodlSubs[idx], hodl)
		n.leave()
	}
	return nil, nil
}

func (r *c13RegistryImpl) HodlUnsubscribeAll(sub chan<- interface{}) {
	n := r.n
	n.enter()
	defer n.leave()
	for idx, subs := range n.hodlSubs {
		var keep []chan<- interface{}
		for _, s := range subs {
			if s != sub {
				keep = append(keep, s)
			}
		}
		n.hodlSubs[idx] = keep
	}
}

func (r *c13RegistryImpl) LookupInvoice(_ context.Context, hash lntypes.Hash) (invoices.Invoice, error) {
	r.n.enter()
	defer r.n.leave()
	w := r.n.w
	w.checkHash("LookupInvoice", hash)
	_, h := w.invoiceOf(hash)
	if h == nil || h.Inv == "" {
		return invoices.Invoice{}, invoices.ErrInvoiceNotFound
	}
	var inv invoices.Invoice
	// The preimage of a hold invoice is only known once the user settled it.
	if !strings.HasPrefix(h.Inv, "hodl") || w.inv[h.Idx] == "settled" {
		p := h.preimage()
		inv.Terms.PaymentPreimage = &p
	}
	return inv, nil
}

// userDecides is the user settling / canceling a hold invoice whose HTLC was
// accepted: an RPC served by the node (one write transaction of channel.db), after
// which the registry notifies the subscribers of that HTLC.
func (n *c13Node) userDecides(idx uint64, state string, pre lntypes.Preimage) {
	w := n.w
	if err := n.write("InvoiceRegistry."+state+"(user)", c13Event{K: "invoice", Idx: idx, Comment: state}); err != nil {
		return
	}
	n.enter()
	w.inv[idx] = state
	subs := append([]chan<- interface{}{}, n.hodlSubs[idx]...)
	n.leave()
	key := models.CircuitKey{ChanID: lnwire.NewShortChanIDFromInt(13), HtlcID: idx}
	var res invoices.HtlcResolution
	if state == "settled" {
		res = invoices.NewSettleResolution(pre, key, 0, invoices.ResultSettled)
	} else {
		res = invoices.NewFailResolution(key, 0, invoices.ResultCanceled)
	}
	for _, s := range subs {
		n.enter()
		n.leave()
		s <- res
	}
}

func c13TypeName(r ContractResolver) string {
	s := fmt.Sprintf("%T", r)
	return s[strings.LastIndex(s, ".")+1:]
}

// c13Incubating reads a bool field "outputIncubating" anywhere in the resolver.
func c13Incubating(v reflect.Value, depth int) bool {
	if depth > 4 {
		return false
	}
	for v.Kind() == reflect.Ptr || v.Kind() == reflect.Interface {
		if v.IsNil() {
			return false
		}
		v = v.Elem()
	}
	if v.Kind() != reflect.Struct {
		return false
	}
	t := v.Type()
	for i := 0; i < v.NumField(); i++ {
		f := t.Field(i)
		if f.Name == "outputIncubating" && v.Field(i).Kind() == reflect.Bool {
			return v.Field(i).Bool()
		}
		if f.Anonymous && c13Incubating(v.Field(i), depth+1) {
			return true
		}
	}
	return false
}

// sampleReports records the maturity heights of the arbitrator's contract reports
// (what PendingChannels shows). A height is kept in every normal form it has -
// absolute, relative to the confirmation of the commitment, relative to the spend
// of the HTLC output - because a resumed run may legitimately be a block late.
func (w *c13World) sampleReports() {
	n := w.node
	if n == nil || n.arb == nil || n.dead.Load() || w.crashed.Load() {
		return
	}
	w.mu.Lock()
	idle := n.idle
	w.mu.Unlock()
	if idle {
		return
	}
	commitH := int32(-1)
	if sp := w.spent[w.funding]; sp != nil {
		commitH = sp.height
	}
	for _, r := range n.arb.Report() {
		key := fmt.Sprintf("%s|type=%d|stage=%d", w.opName(r.Outpoint), r.Type, r.Stage)
		m := int32(r.MaturityHeight)
		if m == 0 {
			continue // not determined yet (set by Launch)
		}
		forms := []string{fmt.Sprintf("abs:%d", m)}
		if commitH >= 0 && m >= commitH {
			forms = append(forms, fmt.Sprintf("commit+%d", m-commitH))
		}
		for j, h := range w.scn.HTLCs {
			if h.Dust || !w.scn.onCommit(h, "local") {
				continue
			}
			second := w.secondLevel(j)
			htlcOp := second.TxIn[0].PreviousOutPoint
			if sp := w.spent[htlcOp]; sp != nil && (r.Outpoint == htlcOp || r.Outpoint.Hash == second.TxHash()) && m >= sp.height {
				forms = append(forms, fmt.Sprintf("htlcspend+%d", m-sp.height))
			}
		}
		w.obs.Maturity[key] = c13ListAdd(w.obs.Maturity[key], strings.Join(forms, ","))
	}
}

// snapshot reads the unresolved-contract bucket and checks that no contract's
// persisted stage went backwards since the previous look.
func (w *c13World) snapshot() []string {
	w.sampleReports()
	un, err := w.rawLog.FetchUnresolvedContracts()
	if err != nil {
		return []string{"error:" + err.Error()}
	}
	var out []string
	cur := map[string]int{}
	for _, r := range un {
		rank := 1
		name := c13TypeName(r)
		if strings.Contains(name, "ContestResolver") {
			rank = 0
		}
		if c13Incubating(reflect.ValueOf(r), 0) {
			rank += 2
		}
		if r.IsResolved() {
			rank += 4
		}
		key := hex.EncodeToString(r.ResolverKey())
		cur[key] = rank
		if old, ok := w.lastSnap[key]; ok && rank < old {
			w.anomaly(fmt.Sprintf("resolver-stage-went-backwards:%s:rank%d->%d", name, old, rank))
		}
		if rank > w.obs.MaxRank[key] {
			w.obs.MaxRank[key] = rank
		}
		out = append(out, fmt.Sprintf("%s/%d", name, rank))
	}
	w.lastSnap = cur
	sort.Strings(out)
	return out
}

func (w *c13World) diskState() string {
	st, err := w.rawLog.CurrentState(nil)
	if err != nil {
		return "no-log"
	}
	return st.String()
}

// startNode is ChainArbitrator.Start for our one channel.
func (w *c13World) startNode() {
	w.gen++
	d := w.readDurable()
	n := &c13Node{
		w: w, gen: w.gen,
		spendRegs: map[wire.OutPoint][]*chainntnfs.SpendEvent{},
		sweeps:    map[wire.OutPoint]*c13SweepReq{},
		memSubs:   map[wire.OutPoint][]*c13MemSub{},
		hodlSubs:  map[uint64][]chan<- interface{}{},
		resolved:  make(chan struct{}),
		closedMem: d.closed,
		ident:     map[uint64]string{},
	}
	n.db = &c13DB{DB: w.cdb, w: w, n: n}
	w.node = n
	// The witness cache is durable.
	for _, ev := range d.events {
		if ev.K == "incubate" {
			w.incubate(int(ev.Idx), ev.Settle)
		}
		if ev.K == "invoice" {
			w.inv[ev.Idx] = ev.Comment
		}
		if ev.K == "preimage" {
			if b, err := hex.DecodeString(ev.Pre); err == nil {
				if p, err := lntypes.MakePreimage(b); err == nil {
					w.knownPre[p.Hash()] = p
				}
			}
		}
	}
	if d.fullyClosed {
		n.mode, n.idle = "gone", true
		w.logf("  node #%d: channel is fully closed in the database, no arbitrator", n.gen)
		return
	}
	cfg := w.config(n)
	htlcSets := make(map[HtlcSetKey]htlcSet)
	if d.closed {
		// loadPendingCloseChannels
		n.mode = "pending-close"
		cfg.IsPendingClose = true
		cfg.ClosingHeight = d.closeHeight
		cfg.CloseType = d.closeType
		cfg.ChainEvents = &ChainEventSubscription{}
		cfg.Channel = &c13Channel{n: n, forbidden: true}
		cfg.MarkChannelClosed = func(*channeldb.ChannelCloseSummary, ...channeldb.ChannelStatus) error {
			n.enterAs("MarkChannelClosed")
			defer n.leave()
			w.anomaly("MarkChannelClosed-on-pending-close-arbitrator(nil func in lnd)")
			return errors.New("c13: channel already closed")
		}
		cfg.MarkCommitmentBroadcasted = func(*wire.MsgTx, lntypes.ChannelParty) error {
			n.enterAs("MarkCommitmentBroadcasted")
			defer n.leave()
			w.anomaly("MarkCommitmentBroadcasted-on-pending-close-arbitrator(nil func in lnd)")
			return errors.New("c13: channel already closed")
		}
	} else {
		// newActiveChannelArbitrator
		n.mode = "open"
		n.events = &ChainEventSubscription{
			ChanPoint:               w.funding,
			RemoteUnilateralClosure: make(chan *RemoteUnilateralCloseInfo, 1),
			LocalUnilateralClosure:  make(chan *LocalUnilateralCloseInfo, 1),
			CooperativeClosure:      make(chan *CooperativeCloseInfo, 1),
			ContractBreach:          make(chan *BreachCloseInfo, 1),
			Cancel:                  func() {},
		}
		cfg.ChainEvents = n.events
		cfg.Channel = &c13Channel{n: n}
		cfg.MarkCommitmentBroadcasted = func(*wire.MsgTx, lntypes.ChannelParty) error {
			return n.write("Channel.MarkCommitmentBroadcasted", c13Event{K: "bcast"})
		}
		cfg.MarkChannelClosed = func(s *channeldb.ChannelCloseSummary, _ ...channeldb.ChannelStatus) error {
			n.enterAs("MarkChannelClosed")
			already := n.closedMem
			if already {
				w.anomaly("MarkChannelClosed-twice")
			}
			n.leave()
			if already {
				return errors.New("c13: channel already closed")
			}
			err := n.write("Channel.CloseChannel("+c13CloseName(s.CloseType)+")",
				c13Event{K: "closed", Type: uint8(s.CloseType), Height: s.CloseHeight})
			if err == nil {
				n.enterAs("MarkChannelClosed")
				n.closedMem = true
				n.leave()
			}
			return err
		}
		htlcSets[LocalHtlcSet] = newHtlcSet(w.htlcsOn("local"))
		htlcSets[RemoteHtlcSet] = newHtlcSet(w.htlcsOn("remote"))
		if w.scn.HasPending {
			htlcSets[RemotePendingHtlcSet] = newHtlcSet(w.htlcsOn("pending"))
		}
		if d.bcast {
			// republishClosingTxs
			w.addMempool(w.commits["local"].Copy(), w.height.Load()+1, true, false)
		}
	}
	log, err := newBoltArbitratorLog(n.db, cfg, chainhash.Hash{}, w.funding)
	if err != nil {
		w.anomaly("newBoltArbitratorLog:" + err.Error())
		n.idle = true
		return
	}
	n.log = log
	n.arb = NewChannelArbitrator(cfg, htlcSets, log)
	if n.mode == "open" {
		n.chainArb = NewChainArbitrator(ChainArbitratorConfig{DisableChannel: func(wire.OutPoint) error {
			n.enterAs("DisableChannel")
			n.leave()
			return nil
		}}, nil)
		n.chainArb.activeChannels[w.funding] = n.arb
	}
	go n.chainArbLoop()
	w.logf("  node #%d starts at height %d: mode=%s state-on-disk=%s unresolved=%v", n.gen, w.height.Load(), n.mode, w.diskState(), w.snapshot())
	beat := chainio.NewBeat(chainntnfs.BlockEpoch{Height: w.height.Load()})
	if err := n.arb.Start(nil, beat); err != nil {
		w.anomaly("arbitrator-start-failed:" + err.Error())
		return
	}
	if !w.settle() {
		return
	}
	if n.mode == "open" {
		if _, sp := w.spent[w.funding]; sp {
			w.deliverCloseEvent()
			w.settle()
		}
	}
}

func c13CloseName(t channeldb.ClosureType) string {
	switch t {
	case channeldb.CooperativeClose:
		return "coop"
	case channeldb.LocalForceClose:
		return "local"
	case channeldb.RemoteForceClose:
		return "remote"
	case channeldb.BreachClose:
		return "breach"
	}
	return fmt.Sprintf("type%d", t)
}

// chainArbLoop is ChainArbitrator.resolveContracts + ResolveContract.
func (n *c13Node) chainArbLoop() {
	for range n.resolved {
		if err := n.write("MarkChanFullyClosed", c13Event{K: "fully-closed"}); err != nil {
			continue
		}
		_ = n.arb.Stop()
		if err := n.log.WipeHistory(); err != nil {
			n.enterAs("ChainArbitrator.ResolveContract")
			n.w.anomaly("WipeHistory:" + err.Error())
			n.leave()
		}
		n.enterAs("ChainArbitrator.ResolveContract")
		n.idle = true
		n.leave()
	}
}

// kill drops the in-memory node: its goroutines are frozen or will freeze at their
// next step; its registrations and sweeper inputs are gone.
func (w *c13World) kill() {
	if w.node != nil {
		w.node.dead.Store(true)
	}
}

// ---------------------------------------------------------------------------
// The script: blocks until the channel is gone from the database
// ---------------------------------------------------------------------------

func (w *c13World) settle() bool {
	for {
		synctest.Wait()
		if w.crashed.Load() {
			return false
		}
		w.snapshot()
		d := w.next()
		if d == nil {
			return true
		}
		w.logf("  deliver: %s", d.what)
		d.fn()
	}
}

// blockStep connects one block and delivers, one at a time and each followed by
// quiescence, what the node's subsystems would tell the arbitrator about it. It
// returns false if the node stopped on the way.
func (w *c13World) blockStep() bool {
	h := w.height.Load() + 1
	w.logf("---- block %d ----", h)
	// 1. The world moves first; none of this depends on the node being alive.
	w.mu.Lock()
	w.remoteTxs(h)
	mined := w.mine(h)
	w.height.Store(h)
	var late []lntypes.Preimage
	for _, ht := range w.scn.HTLCs {
		if ht.In && (ht.Pre == "late" || ht.Pre == "late-lost") && ht.At == h {
			p := ht.preimage()
			w.knownPre[p.Hash()] = p
			late = append(late, p)
		}
	}
	justiceNow := w.scn.Close == "breach" && w.scn.JusticeAt == h
	if justiceNow {
		w.justice = true
	}
	if w.scn.Mempool {
		// A full node sees the remote party's claims of the next block while they
		// are still unconfirmed.
		w.remoteClaims(h+1, h+1, true)
	}
	n := w.node
	w.mu.Unlock()
	w.obs.Blocks++
	if n == nil || n.idle {
		return true
	}
	if w.scn.Mempool && !w.settle() {
		return false
	}
	// 2. Spends of watched outpoints and sweep results: one notification at a
	// time, each followed by quiescence, so that the order in which resolvers act
	// (and hence which write is the k-th) does not depend on the Go scheduler.
	for _, m := range mined {
		for _, in := range m.tx.TxIn {
			op := in.PreviousOutPoint
			w.mu.Lock()
			sp := w.spent[op]
			evs := n.spendRegs[op]
			delete(n.spendRegs, op)
			var rcs []chan sweep.Result
			if req := n.sweeps[op]; req != nil {
				rcs = req.chans
				delete(n.sweeps, op)
			}
			w.mu.Unlock()
			for i, ev := range evs {
				select {
				case ev.Spend <- w.spendDetail(op, sp):
				default:
				}
				w.logf("  deliver: spend of %s by %s (watcher %d)", w.opName(op), w.tagOf(m.tx.TxHash()), i+1)
				if !w.settle() {
					return false
				}
			}
			for _, rc := range rcs {
				select {
				case rc <- (&c13Sweeper{n: n}).result(sp):
				default:
				}
				w.logf("  deliver: sweep result for %s", w.opName(op))
				if !w.settle() {
					return false
				}
			}
		}
	}
	// 3. The chain watcher.
	if n.mode == "open" {
		if sp := w.spent[w.funding]; sp != nil && sp.height == h {
			w.deliverCloseEvent()
			if !w.settle() {
				return false
			}
		}
	}
	// 4. Facts from other subsystems: a preimage learned from the outgoing link,
	// the breach arbitrator finishing.
	for _, p := range late {
		w.mu.Lock()
		subs := append([]chan lntypes.Preimage{}, n.preSubs...)
		w.mu.Unlock()
		for _, ch := range subs {
			select {
			case ch <- p:
			default:
			}
			w.logf("  deliver: preimage %x.. learned", p[:4])
			if !w.settle() {
				return false
			}
		}
	}
	// The user decides on hold invoices whose HTLC the registry has accepted.
	for _, ht := range w.scn.HTLCs {
		if !ht.In || !strings.HasPrefix(ht.Inv, "hodl") || ht.At > h {
			continue
		}
		w.mu.Lock()
		st := w.inv[ht.Idx]
		w.mu.Unlock()
		if st != "accepted" {
			continue
		}
		state := map[string]string{"hodl-settle": "settled", "hodl-cancel": "canceled"}[ht.Inv]
		w.logf("  deliver: the user decides on the hold invoice of %s: %s", ht.name(), state)
		go n.userDecides(ht.Idx, state, ht.preimage())
		if !w.settle() {
			return false
		}
	}
	// The user asks for a force close (and keeps asking until it is under way).
	if uc := w.scn.UserClose; uc > 0 && h >= uc && n.mode == "open" && n.chainArb != nil && w.diskState() == StateDefault.String() {
		w.mu.Lock()
		_, closedOnChain := w.spent[w.funding]
		w.mu.Unlock()
		if !closedOnChain {
			w.logf("  deliver: the user requests a force close")
			go func() { _, _ = n.chainArb.ForceCloseContract(w.funding) }()
			if !w.settle() {
				return false
			}
		}
	}
	if justiceNow {
		w.mu.Lock()
		for _, c := range n.breachSubs {
			close(c)
		}
		n.breachSubs = nil
		w.mu.Unlock()
		w.logf("  deliver: breach arbitrator reports the justice tx final")
		if !w.settle() {
			return false
		}
	}
	// 5. Block epochs to the resolvers that asked for them.
	w.mu.Lock()
	regs := append([]*c13EpochReg{}, n.epochRegs...)
	sort.SliceStable(regs, func(i, j int) bool { return regs[i].ident < regs[j].ident })
	w.mu.Unlock()
	for i, r := range regs {
		select {
		case r.ch <- &chainntnfs.BlockEpoch{Height: h, Hash: &chainhash.Hash{}}:
		default:
		}
		w.logf("  deliver: block epoch %d to the subscription of %s (%d/%d)", h, r.ident, i+1, len(regs))
		if !w.settle() {
			return false
		}
	}
	// 6. The blockbeat to the arbitrator.
	w.mu.Lock()
	idle := n.idle
	w.mu.Unlock()
	if !idle {
		w.logf("  deliver: blockbeat %d", h)
		beat := chainio.NewBeat(chainntnfs.BlockEpoch{Height: h})
		go func() { _ = n.arb.ProcessBlock(beat) }()
		if !w.settle() {
			return false
		}
	}
	// 7. The sweeper handles the block after the arbitrator.
	w.mu.Lock()
	w.sweeperBeat(h)
	w.mu.Unlock()
	if w.scn.Mempool && !w.settle() {
		return false
	}
	return true
}

// arm schedules the stop of the node after k more committed write transactions.
func (w *c13World) arm(k int64) {
	if k <= 0 {
		return
	}
	w.mu.Lock()
	defer w.mu.Unlock()
	w.lastBase = w.cdb.Commits()
	w.lastArm = k
	w.crashAt = w.lastBase + k
	w.cdb.CrashAfter(k)
}

// recover restarts the node until it is up (a second armed crash may hit during
// the restart itself).
func (w *c13World) recover(plan *[]int64) {
	for w.crashed.Load() {
		w.kill()
		abs := w.cdb.Commits()
		label := "?"
		if len(w.labels) > 0 {
			label = w.labels[len(w.labels)-1]
		}
		ci := c13CrashInfo{Abs: abs, Label: label, Height: w.height.Load()}
		if w.lastArm > 0 {
			ci.K = abs - w.lastBase
		}
		w.mu.Lock()
		// Stop-model self-check: between the stop instant and this restart nothing
		// that outlives the process may have changed.
		if w.stopPrint != nil {
			now := w.survivors()
			for i := range now {
				if now[i] != w.stopPrint[i] {
					w.obs.PostStop = c13ListAdd(w.obs.PostStop, fmt.Sprintf("after commit #%d (%s): at stop {%s}, at restart {%s}", abs, label, w.stopPrint[i], now[i]))
				}
			}
			w.stopPrint = nil
		}
		w.cdb.Disarm()
		w.crashAt = 0
		w.crashed.Store(false)
		w.mu.Unlock()
		ci.State = w.diskState()
		ci.Resolver = w.snapshot()
		if cs, err := w.rawLog.FetchConfirmedCommitSet(nil); err == nil && cs != nil {
			ci.CommitSet = true
		}
		if len(*plan) > 0 {
			w.arm((*plan)[0])
			*plan = (*plan)[1:]
		}
		w.logf("==== restart after commit #%d (%s); on disk: state=%s unresolved=%v ====", abs, label, ci.State, ci.Resolver)
		w.startNode()
		ci.Mode = w.node.mode
		w.obs.Crashes = append(w.obs.Crashes, ci)
	}
}
