// C13 harness, part 2: executions, the differential oracle, the worker/parent
// split and the evidence.
//
// For every close scenario the uninterrupted run fixes W, the number of committed
// write transactions of the whole closing-and-resolution history (arbitrator log
// writes and the channel.db writes lnd makes next to them). Then, for every
// k in [1,W], the node is stopped right after the k-th commit, a fresh node is
// started on the same database the way ChainArbitrator.Start would, the chain
// backend re-delivers what it re-delivers (close event while the channel is still
// open in the database, historical spend dispatch, current block epoch, sweep
// results for inputs that are already spent), and the script continues to the end.
// Repeated stops: for every k1 and every k2 in [1, W'(k1)] (W' = commits of the
// resumed run) a second stop k2 commits after the first restart, and likewise a
// third one for the scenarios of depth 3.
//
// Oracle (differential against the uninterrupted run of the same scenario, plus
// invariants that hold for every run): terminal state; close record; per offered
// HTLC the set of resolutions sent to the switch (equal sets, never settle+fail);
// per received HTLC the set of final outcomes; resolver reports (as a set); the set
// of confirmed transactions; nothing published or offered to the sweeper in the
// uninterrupted run is missing, and whatever is offered (again) has the same content
// (witness type, lock time, CSV, sign descriptor, required output, budget,
// deadline); maturity heights of the contract reports; witness-cache additions;
// queries keyed by an HTLC of the scenario only; NotifyChannelResolved only
// with an empty unresolved-contract bucket and StateFullyResolved on disk; no
// contract's persisted stage ever goes backwards; no call that lnd's pending-close
// arbitrator could not make (nil Channel / MarkChannelClosed).
//
// Executions run inside one testing/synctest bubble per worker process (the dead
// processes' goroutines stay parked for ever, which a bubble cannot exit from), so
// the parent test re-execs the test binary (VERIF_SELF) for batches of executions.
package contractcourt

import (
	"bufio"
	"crypto/sha256"
	"encoding/hex"
	"encoding/json"
	"fmt"
	"os"
	"os/exec"
	"path/filepath"
	"runtime"
	"sort"
	"strconv"
	"strings"
	"sync"
	"sync/atomic"
	"testing"
	"testing/synctest"
	"time"

	"github.com/btcsuite/btclog/v2"
	"github.com/lightningnetwork/lnd/verifmc/evid"
)

// ---------------------------------------------------------------------------
// One execution
// ---------------------------------------------------------------------------

func (w *c13World) done() bool {
	w.mu.Lock()
	idle := w.node != nil && w.node.idle
	w.mu.Unlock()
	return idle && w.readDurable().fullyClosed
}

// drain lets the sweeper (a subsystem that outlives the channel arbitrator) and
// the mempool finish what they hold once the channel is fully closed, so that the
// set of confirmed transactions does not depend on the block in which the
// arbitrator happened to finish.
func (w *c13World) drain() {
	if !w.done() {
		return
	}
	for i := 0; i < 12; i++ {
		w.mu.Lock()
		h := w.height.Load()
		w.sweeperBeat(h)
		pending := len(w.mempool)
		if pending > 0 {
			w.logf("---- block %d (after full resolution: sweeper and mempool only) ----", h+1)
			mined := w.mine(h + 1)
			w.height.Store(h + 1)
			n := w.node
			for _, m := range mined {
				for _, in := range m.tx.TxIn {
					delete(n.sweeps, in.PreviousOutPoint)
				}
			}
		}
		w.mu.Unlock()
		if pending == 0 {
			return
		}
	}
}

func (w *c13World) finish() {
	for i := range w.frozen {
		w.obs.Frozen[i] = int(w.frozen[i].Load())
	}
	w.parkMu.Lock()
	w.obs.ParkedBy = map[string]int{}
	for k, v := range w.parkedBy {
		w.obs.ParkedBy[k] = v
	}
	w.parkMu.Unlock()
	if n := w.node; n != nil {
		w.mu.Lock()
		idle := n.idle
		w.mu.Unlock()
		if !idle && n.arb != nil {
			_ = n.arb.Stop()
			synctest.Wait()
		}
		n.dead.Store(true)
	}
	d := w.readDurable()
	o := &w.obs
	o.W = w.cdb.Commits()
	o.Labels = w.labels
	o.Height = w.height.Load()
	o.FullyDone = d.fullyClosed
	o.FinalState = w.diskState()
	o.Left = w.snapshot()
	if d.fullyClosed {
		o.Left = nil
		o.FinalState = "channel-fully-closed"
	}
	o.Closed = "open"
	if d.closed {
		o.Closed = c13CloseName(d.closeType)
	}
	for _, ev := range d.events {
		switch ev.K {
		case "msg":
			v := "fail"
			if ev.Settle {
				v = "settle"
			}
			c13SetAdd(o.Msgs, fmt.Sprintf("out%d", ev.Idx), v)
		case "final":
			v := "failed"
			if ev.Settle {
				v = "settled"
			}
			c13SetAdd(o.Finals, fmt.Sprintf("in%d", ev.Idx), v)
		case "report":
			o.Reports = c13ListAdd(o.Reports, ev.Report)
		case "preimage":
			o.Preimages = c13ListAdd(o.Preimages, ev.Pre[:8])
		}
	}
	for h := range w.chain {
		o.ChainTxs = c13ListAdd(o.ChainTxs, w.tagOf(h))
	}
}

// c13Run performs one execution: plan[i] is the number of commits the i-th node
// generation is allowed before it stops.
func c13Run(scn c13Scn, plan []int64, verbose bool) (c13Obs, error) {
	w, err := newC13World(scn, verbose)
	if err != nil {
		return c13Obs{}, err
	}
	defer w.close()
	rest := append([]int64{}, plan...)
	if len(rest) > 0 {
		w.arm(rest[0])
		rest = rest[1:]
	}
	w.logf("==== scenario %s, stop plan %v ====", scn.Name, plan)
	w.startNode()
	w.recover(&rest)
	for b := 0; b < w.scn.MaxBlocks && !w.done(); b++ {
		if !w.blockStep() {
			w.recover(&rest)
		}
	}
	w.drain()
	w.finish()
	w.logf("==== end: %s ====", c13Summary(&w.obs))
	return w.obs, nil
}

func c13Summary(o *c13Obs) string {
	return fmt.Sprintf("final=%s closed=%s msgs=%v finals=%v reports=%d chain=%v commits=%d blocks=%d anomalies=%v",
		o.FinalState, o.Closed, o.Msgs, o.Finals, len(o.Reports), o.ChainTxs, o.W, o.Blocks, o.Anomalies)
}

// canon is the part of an observation that a crash-free rerun must reproduce.
func (o *c13Obs) canon() string {
	b, _ := json.Marshal([]any{o.FinalState, o.Closed, o.Msgs, o.Finals, o.Reports, o.ChainTxs, o.Published, o.Offered, o.Anomalies, o.OfferContent, o.Maturity})
	return string(b)
}

// ---------------------------------------------------------------------------
// Oracle
// ---------------------------------------------------------------------------

type c13Viol struct {
	Sig  string `json:"sig"`
	What string `json:"what"`
}

func c13Diff(a, b []string) (missing, extra []string) {
	in := func(l []string, s string) bool {
		for _, x := range l {
			if x == s {
				return true
			}
		}
		return false
	}
	for _, x := range a {
		if !in(b, x) {
			missing = append(missing, x)
		}
	}
	for _, x := range b {
		if !in(a, x) {
			extra = append(extra, x)
		}
	}
	return
}

func noAnchorOffer(l []string) []string {
	var o []string
	for _, x := range l {
		if !strings.Contains(x, "Anchor") {
			o = append(o, x)
		}
	}
	return o
}

func c13Keys(ms ...map[string][]string) []string {
	set := map[string]bool{}
	for _, m := range ms {
		for k := range m {
			set[k] = true
		}
	}
	var out []string
	for k := range set {
		out = append(out, k)
	}
	sort.Strings(out)
	return out
}

// c13Judge compares an interrupted run with the uninterrupted run of the same
// scenario (ref == nil: judge the uninterrupted run on its own).
func c13Judge(scn *c13Scn, ref, got *c13Obs) []c13Viol {
	var out []c13Viol
	// Every signature carries how the node came back (restart mode and the
	// arbitrator state found on disk), so that a finding can be told apart from
	// other failures of the same clause.
	ctx := ""
	cause := ""
	for _, c := range got.Crashes {
		ctx += "@restart=" + c.Mode + ":" + c.State
		if c.Mode == "pending-close" && c.State == StateContractClosed.String() {
			// The node came back with StateContractClosed on disk: that state is
			// then re-executed (the only restart that re-decides the chain actions).
			cause = "after-restart-in-StateContractClosed/"
		}
		if c.Mode == "open" && c.CommitSet && cause == "" {
			// The node came back with the channel still open in the database but a
			// confirmed commit set already written by the interrupted close event.
			cause = "after-restart-open-with-confirmed-commit-set-on-file/"
		}
	}
	add := func(clause, detail, what string) {
		out = append(out, c13Viol{Sig: scn.Name + "/" + cause + clause + "/" + detail + ctx, What: what})
	}
	// Invariants that hold for every run.
	for _, a := range got.Anomalies {
		cl := a
		if i := strings.Index(a, ":"); i > 0 {
			cl = a[:i]
		}
		add("invariant", cl, a)
	}
	for _, k := range c13Keys(got.Msgs) {
		if len(got.Msgs[k]) > 1 {
			add("contradictory-upstream-resolution", k, fmt.Sprintf("HTLC %s was both settled and failed towards the switch: %v", k, got.Msgs[k]))
		}
	}
	for _, k := range c13Keys(got.Finals) {
		if len(got.Finals[k]) > 1 {
			add("contradictory-final-outcome", k, fmt.Sprintf("received HTLC %s was recorded both settled and failed: %v", k, got.Finals[k]))
		}
	}
	if ref == nil {
		if !got.FullyDone {
			add("uninterrupted-run-not-resolved", got.FinalState, "the uninterrupted run did not reach full resolution: "+c13Summary(got))
		}
		return out
	}
	// Differential clauses.
	if got.FinalState != ref.FinalState {
		// What is left in the unresolved-contract bucket (type/stage; stage >= 4: the
		// contract is stored as resolved but was never removed).
		left := "left=" + strings.Join(got.Left, ",")
		allResolved := len(got.Left) > 0
		var types []string
		for _, l := range got.Left {
			i := strings.LastIndex(l, "/")
			rank, _ := strconv.Atoi(l[i+1:])
			if rank < 4 {
				allResolved = false
			}
			types = append(types, l[:i])
		}
		if allResolved && got.FinalState == StateWaitingFullResolution.String() {
			add("stuck-on-resolved-but-unremoved-contract", strings.Join(types, ","),
				fmt.Sprintf("the arbitrator stays in %s for ever: the unresolved-contract bucket holds only contracts that are stored as resolved (%v) and nothing removes them; uninterrupted run ends in %s",
					got.FinalState, got.Left, ref.FinalState))
		} else {
			add("terminal-state-differs", "ref="+ref.FinalState+":got="+got.FinalState+":"+left,
				fmt.Sprintf("terminal state %s with unresolved-contract bucket %v, uninterrupted run ends in %s", got.FinalState, got.Left, ref.FinalState))
		}
	}
	if got.Closed != ref.Closed {
		add("close-record-differs", "ref="+ref.Closed+":got="+got.Closed, "channel close record differs")
	}
	for _, k := range c13Keys(ref.Msgs, got.Msgs) {
		if strings.Join(ref.Msgs[k], "+") != strings.Join(got.Msgs[k], "+") {
			add("upstream-outcome-differs", fmt.Sprintf("%s:ref=%s:got=%s", k, strings.Join(ref.Msgs[k], "+"), strings.Join(got.Msgs[k], "+")),
				fmt.Sprintf("offered HTLC %s: resolution messages to the switch %v, uninterrupted run %v", k, got.Msgs[k], ref.Msgs[k]))
		}
	}
	for _, k := range c13Keys(ref.Finals, got.Finals) {
		if strings.Join(ref.Finals[k], "+") != strings.Join(got.Finals[k], "+") {
			add("final-outcome-differs", fmt.Sprintf("%s:ref=%s:got=%s", k, strings.Join(ref.Finals[k], "+"), strings.Join(got.Finals[k], "+")),
				fmt.Sprintf("received HTLC %s: final outcome %v, uninterrupted run %v", k, got.Finals[k], ref.Finals[k]))
		}
	}
	// Anchors are best effort in lnd (a stateless resolver that is not persisted and
	// whose result may arrive after the channel is already fully resolved): their
	// sweeps and reports are recorded but not compared.
	noAnchor := func(l []string) []string {
		var o []string
		for _, x := range l {
			if !strings.HasPrefix(x, "anchor-") {
				o = append(o, x)
			}
		}
		return o
	}
	if m, e := c13Diff(noAnchor(ref.Reports), noAnchor(got.Reports)); len(m)+len(e) > 0 {
		add("resolver-reports-differ", fmt.Sprintf("missing=%d:extra=%d", len(m), len(e)),
			fmt.Sprintf("resolver reports differ: missing %v, extra %v", m, e))
	}
	if m, e := c13Diff(noAnchor(ref.ChainTxs), noAnchor(got.ChainTxs)); len(m)+len(e) > 0 {
		add("confirmed-tx-set-differs", fmt.Sprintf("missing=%s:extra=%s", strings.Join(m, ","), strings.Join(e, ",")),
			fmt.Sprintf("transactions confirmed by the end differ: missing %v, extra %v", m, e))
	}
	// A resumed node may publish more than the uninterrupted one (it re-broadcasts,
	// and a node that comes back in StateDefault with a confirmed remote commitment
	// on file also broadcasts its own, now unconfirmable, commitment); it must not
	// publish or offer less.
	if m, _ := c13Diff(ref.Published, got.Published); len(m) > 0 {
		add("published-tx-missing", strings.Join(m, ","), fmt.Sprintf("never published: %v", m))
	}
	if m, _ := c13Diff(noAnchorOffer(ref.Offered), got.Offered); len(m) > 0 {
		add("sweep-offer-missing", strings.Join(m, ","), fmt.Sprintf("inputs never offered to the sweeper: %v", m))
	}
	// Whatever is handed to the sweeper may be handed over again by a resumed
	// node, but never with different content.
	field := func(c, name string) string {
		i := strings.Index(c, name+"=")
		if i < 0 {
			return "?"
		}
		c = c[i+len(name)+1:]
		if j := strings.IndexByte(c, ' '); j >= 0 {
			c = c[:j]
		}
		return c
	}
	for _, op := range c13Keys(got.OfferContent) {
		refC, ok := ref.OfferContent[op]
		if !ok {
			if !strings.Contains(got.OfferContent[op][0], "Anchor") {
				add("sweep-offer-unknown-input", op+":"+field(got.OfferContent[op][0], "type"),
					fmt.Sprintf("input %s offered to the sweeper, never offered in the uninterrupted run: %s", op, got.OfferContent[op][0]))
			}
			continue
		}
		for _, c := range got.OfferContent[op] {
			if m, _ := c13Diff([]string{c}, refC); len(m) > 0 {
				add("sweep-offer-content-differs",
					fmt.Sprintf("%s:got=%s/locktime=%s/csv=%s:ref=%s/locktime=%s/csv=%s", op, field(c, "type"), field(c, "locktime"), field(c, "csv"),
						field(refC[0], "type"), field(refC[0], "locktime"), field(refC[0], "csv")),
					fmt.Sprintf("input %s offered to the sweeper as {%s}, uninterrupted run offers {%s}", op, c, strings.Join(refC, "} or {")))
			}
		}
	}
	// Maturity heights of the contract reports, in any of their normal forms.
	for _, key := range c13Keys(got.Maturity) {
		refV, ok := ref.Maturity[key]
		if !ok {
			continue
		}
		for _, v := range got.Maturity[key] {
			match := false
			for _, rv := range refV {
				if m, _ := c13Diff(strings.Split(v, ","), strings.Split(rv, ",")); len(m) < len(strings.Split(v, ",")) {
					match = true
				}
			}
			if !match {
				add("report-maturity-differs", key+":got="+strings.Split(v, ",")[0]+":ref="+strings.Split(refV[0], ",")[0],
					fmt.Sprintf("contract report %s shows maturity height %s, uninterrupted run %v", key, v, refV))
			}
		}
	}
	if m, e := c13Diff(ref.Preimages, got.Preimages); len(m)+len(e) > 0 {
		add("witness-cache-differs", fmt.Sprintf("missing=%d:extra=%d", len(m), len(e)), "preimages added to the witness cache differ")
	}
	return out
}

// ---------------------------------------------------------------------------
// Scenarios
// ---------------------------------------------------------------------------

// c13Atom is one letter of the HTLC alphabet. Heights: the node starts at 100; a
// foreign close confirms in block 102 (106 when we broadcast first); our own
// commitment is published during block 105 (the trigger HTLC oN expires at 110,
// broadcast delta 5) and confirms in 106.
type c13Atom struct {
	code    string
	h       c13HTLC
	trigger bool
}

// c13MoreAtoms are the letters that are not part of the subset enumeration; they
// are crossed with every close kind (and channel types) on their own, next to the
// trigger HTLC where the close kind needs one.
//
// Race letters: the resolver that acts for us meets a spend by the other party.
// Exit-hop letters: we are the final hop and the invoice registry decides.
// Trigger letters other than oN: a received HTLC whose preimage we have (witness
// cache / invoice) makes us go to chain IncomingBroadcastDelta before it expires
// (we publish during block 107, our commitment confirms in 108).
var c13MoreAtoms = []c13Atom{
	{"oR", c13HTLC{Exp: 110, Pre: "claim", At: 111}, true},                      // offered, expired (timeout resolver, our timeout spend is out), the remote party's preimage spend confirms first
	{"oQ", c13HTLC{Exp: 110, Pre: "claim-direct", At: 111}, true},               // like oR, but the remote party's spend is never relayed (full-node backends: our own timeout spend is what the mempool shows)
	{"oM", c13HTLC{On: "remote", Exp: 110}, true},                               // offered, on the remote party's commitments but not (yet) on ours, about to expire: makes us go to chain although our own commitment carries nothing
	{"iT", c13HTLC{In: true, Exp: 110, Pre: "late-lost", At: 108}, false},       // received, preimage learned in 108, our claim does not confirm, the remote party times the HTLC out in 111
	{"iG", c13HTLC{In: true, Exp: 112, Pre: "known"}, true},                     // received, preimage known, about to expire: makes us go to chain
	{"xS", c13HTLC{In: true, Exp: 150, Inv: "settle"}, false},                   // exit hop, open invoice: settles when notified
	{"xG", c13HTLC{In: true, Exp: 112, Inv: "settle"}, true},                    // exit hop, open invoice, about to expire: makes us go to chain
	{"xH", c13HTLC{In: true, Exp: 150, Inv: "hodl-settle", At: 108}, false},     // exit hop, hold invoice settled by the user in 108
	{"xX", c13HTLC{In: true, Exp: 150, Inv: "hodl-cancel", At: 108}, false},     // exit hop, hold invoice canceled by the user in 108
	{"xC", c13HTLC{In: true, Exp: 150, Inv: "canceled"}, false},                 // exit hop, invoice already canceled
	{"xV", c13HTLC{In: true, Exp: 150, Inv: "settle", Pre: "underpaid"}, false}, // exit hop, the onion asks for more than the HTLC carries
}

func c13AtomByCode(code string) c13Atom {
	for _, l := range [][]c13Atom{c13Atoms, c13MoreAtoms} {
		for _, a := range l {
			if a.code == code {
				return a
			}
		}
	}
	panic("c13: unknown letter " + code)
}

// bcastAt is the block during which a trigger letter makes us publish our
// commitment (expiry minus the broadcast delta of 5).
func (a c13Atom) bcastAt() int32 { return int32(a.h.Exp) - 5 }

var c13Atoms = []c13Atom{
	{"oN", c13HTLC{Exp: 110}, true},                                  // offered, about to expire: makes us go to chain; times out
	{"oF", c13HTLC{Exp: 114}, false},                                 // offered, contested until 113, then times out
	{"oC", c13HTLC{Exp: 140, Pre: "claim", At: 108}, false},          // offered, the remote party claims it on chain in block 108
	{"oD", c13HTLC{Dust: true, Exp: 130}, false},                     // offered dust
	{"oP", c13HTLC{On: "pending", Exp: 116}, false},                  // offered, only on the remote pending commitment
	{"iK", c13HTLC{In: true, Exp: 150, Pre: "known"}, false},         // received, preimage known
	{"iL", c13HTLC{In: true, Exp: 150, Pre: "late", At: 108}, false}, // received, preimage learned in block 108
	{"iN", c13HTLC{In: true, Exp: 109, Pre: "never"}, false},         // received, never claimable, expires
	{"iD", c13HTLC{In: true, Dust: true, Exp: 150}, false},           // received dust
}

// c13Subsets returns all subsets of the alphabet with at most n letters.
func c13Subsets(n int) [][]c13Atom {
	var out [][]c13Atom
	var rec func(from int, cur []c13Atom)
	rec = func(from int, cur []c13Atom) {
		out = append(out, append([]c13Atom{}, cur...))
		if len(cur) == n {
			return
		}
		for i := from; i < len(c13Atoms); i++ {
			rec(i+1, append(cur, c13Atoms[i]))
		}
	}
	rec(0, nil)
	sort.SliceStable(out, func(i, j int) bool { return len(out[i]) < len(out[j]) })
	return out
}

// c13Perms returns the non-identity slot permutations of n HTLCs to enumerate:
// all of them, or only the reversal.
func c13Perms(n int, all bool) [][]int {
	rev := make([]int, n)
	for i := range rev {
		rev[i] = n - 1 - i
	}
	if !all {
		return [][]int{rev}
	}
	var out [][]int
	var rec func(cur []int, used []bool)
	rec = func(cur []int, used []bool) {
		if len(cur) == n {
			id := true
			for i, v := range cur {
				if v != i {
					id = false
				}
			}
			if !id {
				out = append(out, append([]int{}, cur...))
			}
			return
		}
		for i := 0; i < n; i++ {
			if !used[i] {
				used[i] = true
				rec(append(cur, i), used)
				used[i] = false
			}
		}
	}
	rec(nil, make([]bool, n))
	return out
}

type c13Planned struct {
	scn   c13Scn
	depth int // 1: every single stop; 2: every pair; 3: every triple
}

// c13Scenarios enumerates the close scenarios of a tier: every close type x
// {foreign close first, we broadcast first} x every HTLC subset up to a size.
func c13Scenarios(thorough bool) []c13Planned {
	maxH, pairUpTo, tripleUpTo := 2, 2, 0
	if thorough {
		maxH, pairUpTo, tripleUpTo = 3, 3, 1
	}
	var out []c13Planned
	add := func(s c13Scn, nh int) {
		s.number()
		d := 1
		if !thorough && nh == 2 && s.Close != "local" && s.Close != "pending" {
			// Quick tier: pairs of stops for every scenario with at most one HTLC
			// and for the two-HTLC scenarios of our own / the pending commitment;
			// the remaining two-HTLC scenarios get every single stop (the thorough
			// tier does all pairs).
			nh = 99
		}
		if thorough && len(s.Layout) > 0 && len(s.HTLCs) >= 3 {
			// Thorough tier: the permuted-slot variants of the three-HTLC scenarios
			// get every single stop, the identity layout every pair.
			nh = 99
		}
		if !thorough && len(s.Layout) > 0 {
			// Quick tier: the permuted-slot variants get every single stop only
			// (what they add shows after one restart); the thorough tier treats
			// them like any other scenario.
			nh = 99
		}
		if nh <= pairUpTo {
			d = 2
		}
		if nh <= tripleUpTo {
			d = 3
		}
		out = append(out, c13Planned{scn: s, depth: d})
	}
	userClose := int32(0) // set while the by-user family is built
	build := func(closeKind string, bcastFirst bool, set []c13Atom, bare bool) (c13Scn, bool) {
		s := c13Scn{Close: closeKind, CloseAt: 102, ToLocal: !bare, Anchor: !bare, HasPending: closeKind == "pending", NoUpstream: bare, UserClose: userClose}
		trig := false
		bcast := int32(1 << 30)
		if userClose > 0 {
			trig, bcast = true, userClose
		}
		var codes []string
		for _, a := range set {
			s.HTLCs = append(s.HTLCs, a.h)
			codes = append(codes, a.code)
			trig = trig || a.trigger
			if a.trigger && a.bcastAt() < bcast {
				bcast = a.bcastAt()
			}
			if a.h.On == "pending" {
				s.HasPending = true
			}
		}
		if (closeKind == "local" || bcastFirst) && !trig {
			return s, false
		}
		s.Name = closeKind
		if userClose > 0 {
			s.Name += "-by-user"
		}
		if bcastFirst {
			// The foreign commitment confirms in the block after our broadcast.
			s.Name += "-after-our-broadcast"
			s.CloseAt = bcast + 1
		}
		if closeKind == "breach" {
			s.JusticeAt = s.CloseAt + 4
			s.ToLocal = false
		}
		if closeKind == "coop" {
			s.ToLocal, s.Anchor = false, false
		}
		if len(codes) == 0 {
			codes = []string{"none"}
		}
		s.Name += "/" + strings.Join(codes, "+")
		if bare {
			s.Name += "/bare"
		}
		return s, true
	}
	for _, set := range c13Subsets(maxH) {
		for _, k := range []string{"local", "remote", "pending", "breach", "coop"} {
			for _, first := range []bool{false, true} {
				if k == "local" && first {
					continue
				}
				// A cooperative close has no HTLCs (other than the one that made us
				// broadcast in the meantime); a breach is resolved by the breach
				// arbitrator, HTLCs only matter for the fail-back.
				if k == "coop" && !(len(set) == 0 || (first && len(set) == 1)) {
					continue
				}
				if k == "breach" && len(set) > maxH-1 {
					continue
				}
				s, ok := build(k, first, set, false)
				if !ok {
					continue
				}
				add(s, len(set))
				// The same scenario with the output slots of the non-confirmed
				// commitments permuted: the reversed order in the quick tier, every
				// permutation in the thorough tier.
				if k == "coop" || k == "breach" || len(set) < 2 {
					continue
				}
				for _, perm := range c13Perms(len(set), thorough) {
					v := s
					v.HTLCs = append([]c13HTLC{}, s.HTLCs...)
					v.Layout = perm
					v.Name += "/slots=" + strings.Trim(strings.ReplaceAll(fmt.Sprint(perm), " ", ""), "[]")
					add(v, len(set))
				}
			}
		}
	}
	// The other channel types: our own, the remote and the remote pending
	// commitment confirming, and a foreign commitment confirming after our own
	// broadcast. Rule: on every channel type every close kind meets every letter of
	// the HTLC alphabet - alone where the close kind allows it, next to the trigger
	// HTLC where the close kind needs one (our own commitment only goes to chain
	// because of oN, so "one HTLC" there means oN plus one more). Quick tier: these
	// 0-1(+trigger) HTLC scenarios with every single stop; thorough tier: every
	// subset up to 3 (pairs of stops up to 2 HTLCs, single stops for 3), the
	// after-our-broadcast kinds up to 2.
	var trigger c13Atom
	for _, a := range c13Atoms {
		if a.trigger {
			trigger = a
			break
		}
	}
	type typed struct {
		kind  string
		first bool
		set   []c13Atom
	}
	var typedScns []typed
	for _, set := range c13Subsets(map[bool]int{false: 1, true: 3}[thorough]) {
		for _, k := range []string{"local", "remote", "pending"} {
			typedScns = append(typedScns, typed{k, false, set})
		}
		if len(set) <= 2 {
			for _, k := range []string{"remote", "pending"} {
				typedScns = append(typedScns, typed{k, true, set})
			}
		}
	}
	if !thorough {
		for _, a := range c13Atoms {
			if a.trigger {
				continue
			}
			with := []c13Atom{trigger, a}
			typedScns = append(typedScns, typed{"local", false, with},
				typed{"remote", true, with}, typed{"pending", true, with})
		}
	}
	for _, ct := range []string{"lease-init", "lease-noninit", "taproot", "taproot-final", "legacy"} {
		for _, ts := range typedScns {
			set := ts.set
			s, ok := build(ts.kind, ts.first, set, false)
			if !ok {
				continue
			}
			s.Chan = ct
			s.Name = ct + ":" + s.Name
			if ct == "legacy" {
				s.Anchor = false
			}
			nh := len(set)
			if nh == 3 {
				nh = 99
			}
			if thorough && nh < 2 {
				nh = 2 // no triples here
			}
			if !thorough {
				nh = 99 // quick tier: every single stop
			}
			add(s, nh)
			if len(set) < 2 {
				continue
			}
			rev := c13Perms(len(set), false)[0]
			v := s
			v.HTLCs = append([]c13HTLC{}, s.HTLCs...)
			v.Layout = rev
			v.Name += "/slots=" + strings.Trim(strings.ReplaceAll(fmt.Sprint(rev), " ", ""), "[]")
			add(v, nh)
		}
	}
	// Variants without a balance output and without anchors.
	for _, set := range c13Subsets(1) {
		for _, k := range []string{"local", "remote", "pending"} {
			if s, ok := build(k, false, set, true); ok {
				add(s, len(set))
			}
		}
	}
	// Two HTLCs of the same kind.
	two := c13Scn{Name: "local/oN+oN'", Close: "local", ToLocal: true, Anchor: true, NoUpstream: true, HTLCs: []c13HTLC{{Exp: 110}, {Exp: 111}}}
	add(two, 2)
	two.Name, two.Layout = "local/oN+oN'/slots=10", []int{1, 0}
	two.HTLCs = append([]c13HTLC{}, two.HTLCs...)
	add(two, 2)

	// ---- families added by the axis audit (see AXES.md) ----------------------
	allTypes := []string{"", "lease-init", "lease-noninit", "taproot", "taproot-final", "legacy"}
	someTypes := []string{"", "taproot", "legacy"}
	type kindT struct {
		kind  string
		first bool
	}
	kinds := []kindT{{"local", false}, {"remote", false}, {"pending", false}, {"remote", true}, {"pending", true}}
	// typedAdd builds one scenario on channel type ct; the letter stands alone where
	// the close kind allows it and next to the trigger oN where it needs one.
	typedAdd := func(ct string, k kindT, codes []string, mempool bool, depthKey int, reversed bool) {
		var set []c13Atom
		hasTrig := false
		for _, c := range codes {
			a := c13AtomByCode(c)
			set = append(set, a)
			hasTrig = hasTrig || a.trigger
		}
		if (k.kind == "local" || k.first) && !hasTrig && userClose == 0 {
			set = append([]c13Atom{trigger}, set...)
		}
		s, ok := build(k.kind, k.first, set, false)
		if !ok {
			return
		}
		if ct != "" {
			s.Chan = ct
			s.Name = ct + ":" + s.Name
		}
		if ct == "legacy" {
			s.Anchor = false
		}
		if mempool {
			s.Mempool = true
			s.Name += "/mempool"
		}
		if ct != "" && depthKey == 2 {
			// Thorough tier: pairs of stops on the anchors type, every single stop
			// on the other channel types.
			depthKey = 99
		}
		add(s, depthKey)
		if reversed && len(set) >= 2 {
			rev := c13Perms(len(set), false)[0]
			v := s
			v.HTLCs = append([]c13HTLC{}, s.HTLCs...)
			v.Layout = rev
			v.Name += "/slots=" + strings.Trim(strings.ReplaceAll(fmt.Sprint(rev), " ", ""), "[]")
			add(v, depthKey)
		}
	}
	// depth keys: 99 = every single stop; 2 = every pair of stops (thorough tier).
	single, deep := 99, 99
	if thorough {
		deep = 2
	}
	// (1) Race letters and the received-HTLC trigger: every channel type x every
	// close kind.
	for _, ct := range allTypes {
		for _, k := range kinds {
			for _, c := range []string{"oR", "oM", "iT", "iG"} {
				if ct == "legacy" && c == "iT" && k.kind == "local" {
					// lnd's pre-anchor success path hands the output to the utxo
					// nursery and waits for the second-level output only: if the
					// remote party wins the race even the uninterrupted run never
					// finishes (see AXES.md); nothing to compare restarts with.
					continue
				}
				typedAdd(ct, k, []string{c}, false, deep, true)
			}
		}
	}
	// (2) Exit-hop letters: we are the final hop, the invoice registry decides.
	exitTypes := someTypes
	if thorough {
		exitTypes = allTypes
	}
	for _, ct := range exitTypes {
		for _, k := range kinds {
			for _, c := range []string{"xS", "xG", "xH", "xX", "xC", "xV"} {
				typedAdd(ct, k, []string{c}, false, deep, thorough)
			}
		}
	}
	// (3) Full-node backend (mempool watcher): every offered letter that reaches
	// the timeout resolver, alone and next to each other.
	memTypes := someTypes
	if thorough {
		memTypes = allTypes
	}
	for _, ct := range memTypes {
		for _, k := range kinds {
			for _, codes := range [][]string{{"oN"}, {"oF"}, {"oR"}, {"oQ"}, {"oC"}, {"oR", "oF"}} {
				if len(codes) == 2 && !(thorough || ct == "") {
					continue
				}
				typedAdd(ct, k, codes, true, single, false)
			}
		}
	}
	// (4) The user asks for the force close (userTrigger) in block 103: our
	// commitment goes to chain without any HTLC forcing it, so every letter meets
	// it alone, including none at all; and a foreign commitment that confirms
	// instead.
	userClose = 103
	userLetters := []string{"", "oF", "iK"}
	for _, ct := range allTypes {
		letters := userLetters
		if ct == "" || thorough {
			letters = []string{""}
			for _, a := range c13Atoms {
				letters = append(letters, a.code)
			}
			for _, a := range c13MoreAtoms {
				letters = append(letters, a.code)
			}
		}
		for _, c := range letters {
			var codes []string
			if c != "" {
				codes = []string{c}
			}
			if ct == "legacy" && c == "iT" {
				continue // see (1)
			}
			typedAdd(ct, kindT{"local", false}, codes, false, deep, false)
			if c == "" || c == "oF" || c == "iK" {
				typedAdd(ct, kindT{"remote", true}, codes, false, single, false)
				typedAdd(ct, kindT{"pending", true}, codes, false, single, false)
			}
		}
	}
	// ... and without a balance output, anchors or HTLCs: nothing at all to resolve.
	if s, ok := build("local", false, nil, true); ok {
		add(s, deep)
	}
	userClose = 0
	return out
}

// ---------------------------------------------------------------------------
// Worker side
// ---------------------------------------------------------------------------

type c13Job struct {
	ID    int     `json:"id"`
	Scn   c13Scn  `json:"scn"`
	Mode  string  `json:"mode"`  // ref | deep | exact
	Ks    []int64 `json:"ks"`    // deep: first stops (further stops are enumerated below each); exact: the plan
	Depth int     `json:"depth"` // deep: number of stops per execution
	Verb  bool    `json:"verbose"`
}

type c13Result struct {
	JobID   int       `json:"job"`
	Start   bool      `json:"start,omitempty"` // marker written before an execution begins
	Plan    []int64   `json:"plan"`
	Scn     string    `json:"scn"`
	Obs     *c13Obs   `json:"obs,omitempty"`
	Viols   []c13Viol `json:"viols,omitempty"`
	RefHash string    `json:"ref_hash,omitempty"`
	Err     string    `json:"err,omitempty"`
	Skipped string    `json:"skipped,omitempty"`
}

// c13Progress is bumped at the start and at the end of every execution (odd:
// one is running). The watchdog lives outside the bubble and uses the real clock.
var c13Progress atomic.Int64

func c13WorkerMain(t *testing.T, jobsPath, outPath string) {
	b, err := os.ReadFile(jobsPath)
	if err != nil {
		fmt.Println("c13 worker: ", err)
		os.Exit(4)
	}
	var jobs []c13Job
	if err := json.Unmarshal(b, &jobs); err != nil {
		fmt.Println("c13 worker: ", err)
		os.Exit(4)
	}
	f, err := os.Create(outPath)
	if err != nil {
		fmt.Println("c13 worker: ", err)
		os.Exit(4)
	}
	out := bufio.NewWriter(f)
	emit := func(r c13Result) {
		j, _ := json.Marshal(r)
		out.Write(j)
		out.WriteByte('\n')
		out.Flush()
	}
	// Real-time watchdog (outside the bubble): an execution that does not finish is
	// a harness problem, never a verdict.
	limit := 240 * time.Second
	if s := os.Getenv("VERIF_C13_HANG_S"); s != "" {
		if n, err := strconv.Atoi(s); err == nil {
			limit = time.Duration(n) * time.Second
		}
	}
	go func() {
		last, since := int64(-1), time.Now()
		for {
			time.Sleep(2 * time.Second)
			cur := c13Progress.Load()
			if cur != last {
				last, since = cur, time.Now()
				continue
			}
			if cur%2 == 1 && time.Since(since) > limit {
				fmt.Println("c13 worker: execution exceeded the real-time limit; goroutine dump follows")
				buf := make([]byte, 1<<20)
				os.Stdout.Write(buf[:runtime.Stack(buf, true)])
				os.Exit(3)
			}
		}
	}()
	synctest.Test(t, func(t *testing.T) {
		refs := map[string]*c13Obs{}
		exec1 := func(job *c13Job, plan []int64, ref *c13Obs) *c13Obs {
			emit(c13Result{JobID: job.ID, Start: true, Plan: plan, Scn: job.Scn.Name})
			c13Progress.Add(1)
			if job.Verb {
				lg := btclog.NewSLogger(btclog.NewDefaultHandler(c13LndLog{}, btclog.WithNoTimestamp()))
				lg.SetLevel(btclog.LevelDebug)
				UseLogger(lg)
			}
			obs, err := c13Run(job.Scn, plan, job.Verb)
			c13Progress.Add(1)
			res := c13Result{JobID: job.ID, Plan: plan, Scn: job.Scn.Name, Obs: &obs}
			if err != nil {
				res.Err = err.Error()
				emit(res)
				return nil
			}
			if ref != nil {
				res.RefHash = c13HashOf(ref.canon())
				if len(obs.Crashes) < len(plan) {
					res.Skipped = fmt.Sprintf("stop plan %v not reached (%d stops happened, %d commits)", plan, len(obs.Crashes), obs.W)
				} else {
					res.Viols = c13Judge(&job.Scn, ref, &obs)
				}
			} else {
				res.Viols = c13Judge(&job.Scn, nil, &obs)
			}
			emit(res)
			return &obs
		}
		for i := range jobs {
			job := &jobs[i]
			job.Scn.number()
			ref := refs[job.Scn.Name]
			if ref == nil {
				// Every worker recomputes the uninterrupted run it compares with
				// (quietly: only "ref" jobs report it).
				if job.Mode == "ref" {
					ref = exec1(job, nil, nil)
				} else {
					o, err := c13Run(job.Scn, nil, false)
					if err != nil {
						emit(c13Result{JobID: job.ID, Scn: job.Scn.Name, Err: err.Error()})
						continue
					}
					ref = &o
				}
				refs[job.Scn.Name] = ref
				if job.Mode == "ref" {
					continue
				}
			}
			if ref == nil {
				continue
			}
			switch job.Mode {
			case "ref":
				exec1(job, nil, nil)
			case "deep":
				// Every first stop in Ks, and below each of them every further stop
				// down to the requested depth.
				var rec func(plan []int64)
				rec = func(plan []int64) {
					o := exec1(job, plan, ref)
					if o == nil || len(plan) >= job.Depth || len(o.Crashes) < len(plan) {
						return
					}
					rem := o.W - o.Crashes[len(plan)-1].Abs
					for k := int64(1); k <= rem; k++ {
						rec(append(append([]int64{}, plan...), k))
					}
				}
				for _, k1 := range job.Ks {
					rec([]int64{k1})
				}
			case "exact":
				exec1(job, job.Ks, ref)
			}
		}
		out.Flush()
		f.Close()
		// The bubble cannot be left: processes that "died" are parked for ever.
		os.Exit(0)
	})
}

func c13HashOf(s string) string {
	h := sha256.Sum256([]byte(s))
	return hex.EncodeToString(h[:6])
}

// ---------------------------------------------------------------------------
// Parent side
// ---------------------------------------------------------------------------

type c13Pool struct {
	self    string
	dir     string
	verbose bool
	seq     atomic.Int64
}

// runBatch executes one batch in a fresh worker process and returns its results.
func (p *c13Pool) runBatch(jobs []c13Job) (res []c13Result, died string) {
	id := p.seq.Add(1)
	jp := filepath.Join(p.dir, fmt.Sprintf("jobs%d.json", id))
	op := filepath.Join(p.dir, fmt.Sprintf("out%d.jsonl", id))
	b, _ := json.Marshal(jobs)
	if err := os.WriteFile(jp, b, 0o644); err != nil {
		return nil, err.Error()
	}
	cmd := exec.Command(p.self, "-test.run", "^TestC13$", "-test.count=1", "-test.timeout=0")
	cmd.Env = append(os.Environ(), "VERIF_C13_JOBS="+jp, "VERIF_C13_OUT="+op, "GOMAXPROCS=1")
	outb, err := cmd.CombinedOutput()
	if p.verbose {
		for _, l := range strings.Split(string(outb), "\n") {
			if strings.HasPrefix(l, "INFO ") {
				fmt.Println(l)
			}
		}
	}
	if f, e := os.Open(op); e == nil {
		sc := bufio.NewScanner(f)
		sc.Buffer(make([]byte, 1<<20), 1<<26)
		for sc.Scan() {
			var r c13Result
			if json.Unmarshal(sc.Bytes(), &r) == nil {
				res = append(res, r)
			}
		}
		f.Close()
	}
	os.Remove(jp)
	os.Remove(op)
	if err != nil {
		tail := string(outb)
		if len(tail) > 6000 {
			tail = tail[len(tail)-6000:]
		}
		died = fmt.Sprintf("%v\n%s", err, tail)
	}
	return res, died
}

type c13Replay struct {
	Scn  c13Scn  `json:"scn"`
	Plan []int64 `json:"plan"`
}

func TestC13(t *testing.T) {
	if jp := os.Getenv("VERIF_C13_JOBS"); jp != "" {
		c13WorkerMain(t, jp, os.Getenv("VERIF_C13_OUT"))
		return
	}
	run := evid.Start("C13", "fault_enumeration")
	self := os.Getenv("VERIF_SELF")
	if self == "" {
		self, _ = os.Executable()
	}
	dir := os.Getenv("VERIF_SCRATCH")
	if dir == "" {
		dir = os.TempDir()
	}
	pool := &c13Pool{self: self, dir: dir}
	if rp := os.Getenv("VERIF_REPLAY"); rp != "" {
		c13ReplayFile(t, run, pool, rp)
		return
	}
	thorough := run.Thorough()
	budget := 165 * time.Second
	if thorough {
		budget = 25 * time.Minute
	}
	if s := os.Getenv("VERIF_C13_BUDGET_S"); s != "" {
		if n, err := strconv.Atoi(s); err == nil {
			budget = time.Duration(n) * time.Second
		}
	}
	deadline := time.Now().Add(budget)
	workers := runtime.NumCPU()
	if workers > 16 {
		workers = 16
	}
	if s := os.Getenv("VERIF_C13_WORKERS"); s != "" {
		if n, err := strconv.Atoi(s); err == nil && n > 0 {
			workers = n
		}
	}
	planned := c13Scenarios(thorough)
	if only := os.Getenv("VERIF_C13_ONLY"); only != "" {
		var f []c13Planned
		for _, p := range planned {
			if strings.HasPrefix(p.scn.Name, only) {
				f = append(f, p)
			}
		}
		planned = f
	}
	var scns []c13Scn
	depthOf := map[string]int{}
	for _, p := range planned {
		scns = append(scns, p.scn)
		depthOf[p.scn.Name] = p.depth
	}
	byName := map[string]*c13Scn{}
	for i := range scns {
		byName[scns[i].Name] = &scns[i]
	}

	var (
		mu           sync.Mutex
		evals        int
		perScn       = map[string]map[string]int{}
		refs         = map[string]*c13Obs{}
		distinct     = map[string]bool{}
		labelHist    = map[string]int{}
		restartHist  = map[string]int{}
		termHist     = map[string]int{}
		skipped      []string
		frozenCalls  [3]int
		parkedBy     = map[string]int{}
		postStop     []string
		capsHit      []string
		brokenNotes  []string
		samples      = evid.NewSamples(10)
		violSeen     = map[string]bool{}
		pendingViol  []c13Result
		refHashes    = map[string]map[string]bool{}
		nondet       []string
		exhaustive   = true
		jobSeq       int
		writeSamples []any
	)
	bump := func(s, k string) {
		if perScn[s] == nil {
			perScn[s] = map[string]int{}
		}
		perScn[s][k]++
	}
	absorb := func(results []c13Result) {
		mu.Lock()
		defer mu.Unlock()
		for _, r := range results {
			if r.Start {
				continue
			}
			if r.Err != "" {
				brokenNotes = append(brokenNotes, fmt.Sprintf("%s plan %v: %s", r.Scn, r.Plan, r.Err))
				exhaustive = false
				continue
			}
			evals++
			o := r.Obs
			for i, f := range o.Frozen {
				frozenCalls[i] += f
			}
			for k, v := range o.ParkedBy {
				parkedBy[k] += v
			}
			for _, e := range o.PostStop {
				// The stop model leaked: a harness problem, never a verdict.
				postStop = append(postStop, fmt.Sprintf("%s plan %v: %s", r.Scn, r.Plan, e))
			}
			kind := fmt.Sprintf("stops=%d", len(r.Plan))
			bump(r.Scn, kind)
			termHist[r.Scn+" -> "+o.FinalState]++
			if len(r.Plan) == 0 {
				if refs[r.Scn] == nil {
					refs[r.Scn] = o
				}
			}
			if r.RefHash != "" {
				if refHashes[r.Scn] == nil {
					refHashes[r.Scn] = map[string]bool{}
				}
				refHashes[r.Scn][r.RefHash] = true
			}
			if r.Skipped != "" {
				skipped = append(skipped, r.Scn+": "+r.Skipped)
				continue
			}
			if len(o.Crashes) > 0 {
				var key []string
				nontrivial := false
				for _, c := range o.Crashes {
					key = append(key, c.Label+"@"+c.State+"/"+c.Mode+"/"+strings.Join(c.Resolver, ","))
					labelHist[c.Label]++
					restartHist[c.Mode+"/"+c.State]++
					if c.Mode != "gone" {
						nontrivial = true
					}
				}
				if nontrivial {
					distinct[r.Scn+"|"+strings.Join(key, "|")] = true
				}
				if len(r.Viols) == 0 && nontrivial && (len(o.Crashes) == 2 || o.Crashes[0].State == "StateWaitingFullResolution") {
					samples.Add(map[string]any{"scenario": r.Scn, "stop_plan": r.Plan, "stops": o.Crashes,
						"outcome": map[string]any{"final": o.FinalState, "msgs": o.Msgs, "finals": o.Finals, "confirmed": o.ChainTxs, "commits": o.W, "blocks": o.Blocks}})
				}
			}
			if len(r.Viols) > 0 {
				pendingViol = append(pendingViol, r)
			}
		}
	}

	// runAll dispatches batches over the worker pool.
	runAll := func(batches [][]c13Job) {
		var wg sync.WaitGroup
		ch := make(chan []c13Job)
		for i := 0; i < workers; i++ {
			wg.Add(1)
			go func() {
				defer wg.Done()
				for b := range ch {
					res, died := pool.runBatch(b)
					absorb(res)
					if died != "" {
						// Which execution was running?
						last := "(none started)"
						var lastRes *c13Result
						for i := range res {
							if res[i].Start {
								lastRes = &res[i]
							} else {
								lastRes = nil
							}
						}
						if lastRes != nil {
							last = fmt.Sprintf("%s plan %v", lastRes.Scn, lastRes.Plan)
						}
						mu.Lock()
						exhaustive = false
						if lastRes != nil && strings.Contains(died, "panic:") && !strings.Contains(died, "real-time limit") {
							// lnd code panicked in one of its own goroutines: a process
							// crash of the node under test, with a reproducer.
							sig := lastRes.Scn + "/panic-in-lnd"
							if !violSeen[sig] {
								violSeen[sig] = true
								run.Violation(sig, "worker process died with a panic while executing "+last+": "+c13Tail(died, 1500),
									c13Replay{Scn: *byName[lastRes.Scn], Plan: lastRes.Plan})
							}
						} else {
							brokenNotes = append(brokenNotes, "worker died during "+last+": "+c13Tail(died, 800))
						}
						mu.Unlock()
					}
				}
			}()
		}
		for _, b := range batches {
			if time.Now().After(deadline) {
				mu.Lock()
				exhaustive = false
				capsHit = append(capsHit, fmt.Sprintf("time budget %v reached; remaining batches not run", budget))
				mu.Unlock()
				break
			}
			ch <- b
		}
		close(ch)
		wg.Wait()
	}

	// Phase A: the uninterrupted runs.
	var batches [][]c13Job
	for i := 0; i < len(scns); i += 6 {
		var b []c13Job
		for j := i; j < i+6 && j < len(scns); j++ {
			jobSeq++
			b = append(b, c13Job{ID: jobSeq, Scn: scns[j], Mode: "ref"})
		}
		batches = append(batches, b)
	}
	runAll(batches)
	for _, s := range scns {
		if refs[s.Name] == nil {
			fmt.Printf("INFO scenario %s: no uninterrupted run result\n", s.Name)
			exhaustive = false
		}
	}

	// Phase B: every stop point, and below it every further stop down to the
	// scenario's depth.
	batches = nil
	var names []string
	wInfo := map[string]any{}
	depthScn := map[string][]string{}
	for _, s := range scns {
		ref := refs[s.Name]
		if ref == nil {
			continue
		}
		names = append(names, s.Name)
		d := depthOf[s.Name]
		wInfo[s.Name] = map[string]any{"W": ref.W, "blocks": ref.Blocks, "stops_per_execution": d}
		depthScn[fmt.Sprintf("depth%d", d)] = append(depthScn[fmt.Sprintf("depth%d", d)], s.Name)
		if len(s.HTLCs) >= 2 && len(writeSamples) < 4 && ref.W > 20 {
			writeSamples = append(writeSamples, map[string]any{"scenario": s, "committed_writes_of_the_uninterrupted_run": ref.Labels})
		}
		chunk := int64(8)
		if d == 2 {
			chunk = 2
		} else if d >= 3 {
			chunk = 1
		}
		for k := int64(1); k <= ref.W; k += chunk {
			var ks []int64
			for j := k; j < k+chunk && j <= ref.W; j++ {
				ks = append(ks, j)
			}
			jobSeq++
			batches = append(batches, []c13Job{{ID: jobSeq, Scn: s, Mode: "deep", Depth: d, Ks: ks}})
		}
	}
	// VERIF_SEED only rotates the order in which batches are handed out.
	if n := len(batches); n > 0 {
		r := run.Seed() % n
		if r < 0 {
			r += n
		}
		batches = append(batches[r:], batches[:r]...)
	}
	// shallow first (cheap, broad), deeper after
	sort.SliceStable(batches, func(i, j int) bool {
		return batches[i][0].Depth < batches[j][0].Depth
	})
	runAll(batches)

	// Determinism: every worker must have compared against the same uninterrupted run.
	for s, hs := range refHashes {
		if len(hs) > 1 {
			nondet = append(nondet, fmt.Sprintf("uninterrupted run of %s observed %d different ways", s, len(hs)))
		}
	}

	// Violations: replay 3x in fresh workers before reporting.
	sort.Slice(pendingViol, func(i, j int) bool {
		a, b := pendingViol[i], pendingViol[j]
		if len(a.Plan) != len(b.Plan) {
			return len(a.Plan) < len(b.Plan)
		}
		if a.Scn != b.Scn {
			return a.Scn < b.Scn
		}
		for x := range a.Plan {
			if a.Plan[x] != b.Plan[x] {
				return a.Plan[x] < b.Plan[x]
			}
		}
		return false
	})
	sigCount := map[string]int{}
	for _, r := range pendingViol {
		for _, v := range r.Viols {
			sigCount[v.Sig]++
		}
	}
	{
		var sigs []string
		for s := range sigCount {
			sigs = append(sigs, s)
		}
		sort.Strings(sigs)
		for _, s := range sigs {
			fmt.Printf("INFO signature x%d: %s\n", sigCount[s], s)
		}
	}
	gated := 0
	for _, r := range pendingViol {
		for _, v := range r.Viols {
			if violSeen[v.Sig] {
				continue
			}
			violSeen[v.Sig] = true
			if gated >= 12 {
				continue
			}
			gated++
			same := 0
			for i := 0; i < 3; i++ {
				jobSeq++
				mode := "exact"
				if len(r.Plan) == 0 {
					mode = "ref"
				}
				res, _ := pool.runBatch([]c13Job{{ID: jobSeq, Scn: *byName[r.Scn], Mode: mode, Ks: r.Plan}})
				for _, x := range res {
					if x.Start || x.Obs == nil {
						continue
					}
					for _, v2 := range x.Viols {
						if v2.Sig == v.Sig && x.Obs.canon() == r.Obs.canon() {
							same++
						}
					}
				}
			}
			if same < 3 {
				nondet = append(nondet, fmt.Sprintf("%s (plan %v) reproduced %d/3 times", v.Sig, r.Plan, same))
				continue
			}
			what := v.What
			if len(r.Obs.Crashes) > 0 {
				var cs []string
				for _, c := range r.Obs.Crashes {
					cs = append(cs, fmt.Sprintf("stop after commit #%d (%s), restarted %s in %s", c.Abs, c.Label, c.Mode, c.State))
				}
				what += " [" + strings.Join(cs, "; ") + fmt.Sprintf("; %d executions show this signature]", sigCount[v.Sig])
			}
			run.Violation(v.Sig, what, c13Replay{Scn: *byName[r.Scn], Plan: r.Plan})
		}
	}
	if len(nondet) > 0 {
		exhaustive = false
		capsHit = append(capsHit, "nondeterminism_detected")
	}
	if len(postStop) > 0 {
		exhaustive = false
		sort.Strings(postStop)
		brokenNotes = append(brokenNotes, fmt.Sprintf("stop model leaked in %d executions (something that outlives the process changed between the stop instant and the restart), e.g. %s", len(postStop), postStop[0]))
	}

	parkedSinks := map[string]int{}
	var parkedOther []string
	for k, v := range parkedBy {
		if c13OutlivingSinks[k] {
			parkedSinks[k] = v
		} else {
			parkedOther = append(parkedOther, k)
		}
	}
	sort.Strings(parkedOther)
	nStops := map[string]int{}
	for _, m := range perScn {
		for k, v := range m {
			nStops[k] += v
		}
	}
	cov := map[string]any{
		"evaluations":         evals,
		"distinct_nontrivial": len(distinct),
		"rule": "an evaluation = one execution of the real started ChannelArbitrator + resolvers on the bolt arbitrator log (crashdb-wrapped bbolt) through a whole close scenario, with 0, 1 or 2 stops; " +
			"scenarios = channel type x close type x {foreign close first, we broadcast first} x every subset (up to a size) of a 9-letter HTLC alphabet x output-slot permutations of the non-confirmed commitments, plus (scenarios_by_family) 11 more letters - races the other party wins, a received HTLC that makes us go to chain, exit-hop HTLCs decided by the invoice registry - crossed with every close kind on their own, a full-node backend with a mempool watcher, and force closes requested by the user; stops are enumerated exhaustively: every k in [1,W] (W = committed write transactions of the uninterrupted run, see scenarios.*.W) and, for the scenarios of depth 2 / 3 (scenarios_by_depth), every (k1,k2[,k3]) with k_{i+1} in [1, commits of the resumed run]; " +
			"distinct_nontrivial = distinct (scenario, for each stop: the write it follows, arbitrator state on disk, restart mode open/pending-close, unresolved contracts on disk with their stage) among executions in which at least one restart found the channel not yet fully closed",
		"samples":                    samples.List(),
		"exhaustive":                 exhaustive,
		"scenarios":                  wInfo,
		"scenarios_by_family":        c13Families(names),
		"scenario_names":             names,
		"scenarios_by_depth":         depthScn,
		"write_sequences":            writeSamples,
		"executions_per_scenario":    perScn,
		"executions_by_stops":        nStops,
		"terminal_outcomes":          termHist,
		"stops_by_preceding_write":   labelHist,
		"restarts_by_mode_and_state": restartHist,
		"stop_model_self_check": map[string]any{
			"executions_with_an_effect_after_the_stop_instant": len(postStop),
			"parked_write_transactions":                        frozenCalls[c13ParkedWrite],
			"parked_read_transactions":                         frozenCalls[c13ParkedRead],
			"parked_calls_on_sinks_that_outlive_the_process":   parkedSinks,
			"other_dependencies_parked":                        parkedOther,
			"rule":                                             "at the stop instant (return of the k-th committed write transaction) everything that outlives the process is fingerprinted (commit count of channel.db incl. the nursery store, nursery and witness-cache mirrors, mempool, chain, published/offered/notified sinks, anomalies) and compared at the restart; every call a goroutine of the stopped process still attempts on the database or a harness-owned dependency is parked, never carried out. Counted per sink where the effect would have outlived the process or is read by the oracle; registrations and lookups (which die with the process; how many of them a concurrently running resolver goroutine still attempts is up to the Go scheduler and unobservable) are listed by name only",
		},
	}
	if len(skipped) > 0 {
		cov["stop_plans_not_reached"] = len(skipped)
		cov["stop_plans_not_reached_examples"] = skipped[:min(len(skipped), 5)]
		exhaustive = false
		cov["exhaustive"] = false
		capsHit = append(capsHit, "some stop plans were not reached (commit count differed from the uninterrupted run)")
	}
	if len(capsHit) > 0 {
		cov["caps_hit"] = capsHit
	}
	if len(nondet) > 0 {
		cov["nondeterminism_detected"] = nondet
	}
	if len(brokenNotes) > 0 {
		cov["harness_problems"] = brokenNotes[:min(len(brokenNotes), 10)]
	}
	run.Assumptions = append(run.Assumptions,
		"a committed kvdb write transaction is atomic and durable (bbolt's contract); the stop instants are exactly the returns of committed write transactions of channel.db (arbitrator log and the channel/switch/witness-cache writes made by the arbitrator's callbacks)",
		"goroutine interleavings inside one stimulus are those the Go scheduler picks; the enumerated nondeterminism is the stop point, with every handler run to quiescence (synctest.Wait) between two stimuli",
		"chain backend model: spends are notified in the block that confirms them and re-notified on registration after a restart; the sweeper forgets its inputs on a stop, publishes one deterministic transaction per mature input one block after it is offered, and answers an already-spent input with the spending transaction; the close event is re-delivered after a restart while the channel is not marked closed",
		"channel types: anchors/zero-fee, script-enforced lease (initiator and non-initiator, thaw height 125), simple taproot, taproot final, legacy tweakless (second-level HTLCs of our own commitment through a modelled, durable utxo nursery); scripts, keys, signatures and control blocks are well-formed placeholders (nothing is script-verified; a success spend must carry the HTLC's real preimage); aux/custom channels, blinded routes and our own payments (IsForwardedHTLC=false, grace period) are not exercised",
		"chain backend: SPV (no mempool watcher) except in the */mempool scenarios, where subscriptions are told about transactions entering the mempool after the subscription (never about earlier ones, never again after a restart); a spend registration only finds spends at or above its height hint; invoice registry: durable per-HTLC state (accepted/settled/canceled, one write transaction per change), replays answered like lnd's registry; a user who asks for a force close repeats the request after a restart while the arbitrator is still in StateDefault; a received HTLC of a pre-anchor channel whose claim loses the race is not enumerated for our own commitment (lnd's legacy success path never finishes there, restart or not)",
		"output indexes are assigned per commitment (the non-confirmed commitments carry the HTLCs in permuted slots); every dependency is keyed strictly and a query with a key of no HTLC of the scenario is a violation",
	)
	if len(brokenNotes) > 0 && evals == 0 {
		fmt.Printf("INFO harness problems: %v\n", brokenNotes)
		t.Fatalf("c13: no execution completed: %v", brokenNotes)
	}
	for _, b := range brokenNotes[:min(len(brokenNotes), 5)] {
		fmt.Printf("INFO harness problem: %s\n", b)
	}
	for _, n := range nondet {
		fmt.Printf("INFO nondeterminism: %s\n", n)
	}
	fmt.Printf("INFO C13 %s: %d executions (%v), %d distinct non-trivial stop situations, scenarios %d, exhaustive=%v\n",
		run.Tier(), evals, nStops, len(distinct), len(names), exhaustive)
	if code := run.Finish(cov); code != 0 {
		os.Exit(code)
	}
	if len(brokenNotes) > 0 {
		// Completed with a verdict on what ran, but some executions were lost.
		t.Logf("c13: %d harness problems", len(brokenNotes))
	}
}

// c13OutlivingSinks: harness-owned dependencies whose effect outlives the calling
// process (durable in channel.db, broadcast) or is recorded for the oracle.
var c13OutlivingSinks = map[string]bool{
	"PublishTx": true, "DeliverResolutionMsg": true, "IncubateOutputs": true, "PutFinalHtlcOutcome": true,
	"AddPreimages": true, "MarkChannelClosed": true, "MarkCommitmentBroadcasted": true, "ForceCloseChan": true,
	"NotifyChannelResolved": true, "ChainArbitrator.ResolveContract": true, "SweepInput": true, "UpdateParams": true,
	"NotifyFinalHtlcEvent": true,
}

// c13Families counts the scenarios per family (read off the scenario name).
func c13Families(names []string) map[string]int {
	out := map[string]int{}
	for _, n := range names {
		letters := n
		if i := strings.Index(letters, "/"); i >= 0 {
			letters = letters[i:]
		}
		fam := "subsets of the 9-letter alphabet (anchors)"
		switch {
		case strings.Contains(n, "-by-user"):
			fam = "force close requested by the user"
		case strings.Contains(n, "/mempool"):
			fam = "full-node backend (mempool watcher)"
		case strings.Contains(letters, "x"):
			fam = "exit-hop letters (invoice registry)"
		case strings.Contains(letters, "oR") || strings.Contains(letters, "oQ") || strings.Contains(letters, "oM") || strings.Contains(letters, "iT") || strings.Contains(letters, "iG"):
			fam = "race letters and received-HTLC trigger"
		case strings.Contains(n, ":"):
			fam = "other channel types x 9-letter alphabet"
		case strings.HasSuffix(n, "/bare"):
			fam = "no balance output, no anchors"
		}
		ct := "anchors"
		if i := strings.Index(n, ":"); i >= 0 {
			ct = n[:i]
		}
		out[fam]++
		out[fam+" | "+ct]++
	}
	return out
}

func c13Tail(s string, n int) string {
	if len(s) > n {
		s = s[len(s)-n:]
	}
	return strings.ReplaceAll(s, "\n", " | ")
}

// ---------------------------------------------------------------------------
// Replay
// ---------------------------------------------------------------------------

type c13LndLog struct{}

func (c13LndLog) Write(p []byte) (int, error) {
	for _, l := range strings.Split(strings.TrimRight(string(p), "\n"), "\n") {
		if len(l) > 260 {
			l = l[:260] + "..."
		}
		fmt.Printf("INFO       lnd| %s\n", l)
	}
	return len(p), nil
}

func c13ReplayFile(t *testing.T, run *evid.Run, pool *c13Pool, path string) {
	b, err := os.ReadFile(path)
	if err != nil {
		t.Fatalf("replay: %v", err)
	}
	var doc struct {
		Signature string    `json:"signature"`
		Replay    c13Replay `json:"replay"`
	}
	if err := json.Unmarshal(b, &doc); err != nil {
		t.Fatalf("replay: %v", err)
	}
	fmt.Printf("INFO replaying scenario %s with stop plan %v (recorded signature %q)\n", doc.Replay.Scn.Name, doc.Replay.Plan, doc.Signature)
	pool.verbose = true
	var first string
	evals := 0
	for i := 0; i < 3; i++ {
		job := c13Job{ID: i + 1, Scn: doc.Replay.Scn, Mode: "exact", Ks: doc.Replay.Plan, Verb: i == 0}
		if len(doc.Replay.Plan) == 0 {
			job.Mode = "ref"
		}
		res, died := pool.runBatch([]c13Job{job})
		pool.verbose = false
		if died != "" {
			fmt.Printf("INFO worker died: %s\n", c13Tail(died, 3000))
			if strings.Contains(died, "panic:") {
				run.Violation(doc.Replay.Scn.Name+"/panic-in-lnd", "worker process died with a panic: "+c13Tail(died, 1500), doc.Replay)
			}
			break
		}
		for _, r := range res {
			if r.Start || r.Obs == nil {
				continue
			}
			evals++
			if i == 0 {
				first = r.Obs.canon()
				if r.Skipped != "" {
					fmt.Printf("INFO %s\n", r.Skipped)
				}
				for _, v := range r.Viols {
					run.Violation(v.Sig, v.What, doc.Replay)
				}
				if len(r.Viols) == 0 {
					fmt.Printf("INFO no clause violated on this tree: %s\n", c13Summary(r.Obs))
				}
			} else if r.Obs.canon() != first {
				fmt.Printf("INFO NONDETERMINISTIC replay: run %d observed %s\n", i+1, c13Summary(r.Obs))
			}
		}
	}
	os.Exit(run.Finish(map[string]any{"evaluations": max(evals, 1), "distinct_nontrivial": 2, "rule": "replay of one recorded execution, three times", "samples": []any{doc.Replay}}))
}
