// C01: both peers agree on every commitment; value is conserved.
// Explicit-state exploration of all interleavings of a two-peer script on the
// real LightningChannel state machines (see engine/chanmc).
package c01

import (
	"os"
	"strconv"
	"testing"
	"time"

	"github.com/lightningnetwork/lnd/verifmc/chanmc"
	"github.com/lightningnetwork/lnd/verifmc/evid"
)

func sat(s int64, extraMsat uint64) uint64 { return uint64(s)*1000 + extraMsat }

// spaces builds the exploration jobs of a tier.
func spaces(thorough bool) []chanmc.Space {
	var out []chanmc.Space
	fullTypes := []string{"tweakless", "zerofee", "taprootfinal"}
	if thorough {
		fullTypes = chanmc.AllTypes
	}
	for _, typ := range fullTypes {
		for _, openerB := range []bool{false, true} {
			th := chanmc.Thresholds(typ, 6000, 200, 1300)
			// 2-HTLC scripts, full interleaving. Amount profiles straddle the
			// four dust thresholds (dust on one commitment only, msat remainders).
			profiles := [][2]uint64{
				{sat(th[0], 0) - 1, sat(th[2]-1, 999)}, // A: 1 msat below its own threshold; B: just below its own, with remainder
				{sat(th[1]-1, 999), sat(th[3], 0)},     // A: dust on B's commitment only; B: exactly at A's threshold
			}
			if thorough {
				profiles = append(profiles, [2]uint64{sat(th[1], 0), sat(th[2], 1)}, [2]uint64{sat(20000, 500), sat(th[3]-1, 0)})
			}
			for pi, pr := range profiles {
				fates := [][2]string{{"settle", "fail"}, {"malformed", "settle"}}
				f := fates[pi%2]
				out = append(out, chanmc.Space{Dev: -1, P: chanmc.Params{Type: typ, OpenerB: openerB, Script: []chanmc.Intent{
					{By: 0, Amt: pr[0], Fate: f[0]}, {By: 1, Amt: pr[1], Fate: f[1]},
				}}})
			}
			// one HTLC and a fee update by the opener, full interleaving
			op := 0
			if openerB {
				op = 1
			}
			out = append(out, chanmc.Space{Dev: -1, P: chanmc.Params{Type: typ, OpenerB: openerB, Fees: []int64{7000},
				Script: []chanmc.Intent{{By: 1 - op, Amt: sat(th[0]+1, 0), Fate: "settle"}}}})
		}
	}
	// 3-HTLC scripts (incl. an equal hash/amount/expiry duplicate pair) on all
	// seven types: deviation-bounded around the eager schedule (quick), full (thorough).
	devs := []int{2}
	if thorough {
		// first everything within 3 deviations of the eager schedule on all
		// types, then the full interleavings for as long as the budget lasts
		devs = []int{3, -1}
	}
	for _, dev := range devs {
		for ti, typ := range chanmc.AllTypes {
			th := chanmc.Thresholds(typ, 6000, 200, 1300)
			openerB := ti%2 == 1
			out = append(out, chanmc.Space{Dev: dev, P: chanmc.Params{Type: typ, OpenerB: openerB, Script: []chanmc.Intent{
				{By: 0, Amt: sat(30000, 0), Fate: "settle", Dup: 1}, {By: 0, Amt: sat(30000, 0), Fate: "fail", Dup: 1},
				{By: 1, Amt: sat(th[3], 999), Fate: "settle"},
			}}})
			// two shards of one payment: equal hash and expiry, different amounts,
			// the larger one first (BIP69 puts the smaller output first)
			out = append(out, chanmc.Space{Dev: dev, P: chanmc.Params{Type: typ, OpenerB: openerB, Script: []chanmc.Intent{
				{By: ti % 2, Amt: sat(300000, 0), Fate: "settle", Dup: 2}, {By: ti % 2, Amt: sat(100000, 0), Fate: "settle", Dup: 2},
				{By: 1 - ti%2, Amt: sat(th[0]+th[2], 0), Fate: "fail"},
			}}})
			// two HTLCs with equal hash and amount but different expiry: as offered
			// outputs they are byte-identical, so which output is paired with which
			// HTLC (BOLT 3: ties broken by CLTV) is observable only through the
			// lock time of the second-level transactions both sides sign and verify;
			// added in descending and in ascending expiry order
			e1, e2 := uint32(500), uint32(400)
			if ti%2 == 1 {
				e1, e2 = 400, 500
			}
			out = append(out, chanmc.Space{Dev: dev, P: chanmc.Params{Type: typ, OpenerB: openerB, Script: []chanmc.Intent{
				{By: (ti / 2) % 2, Amt: sat(200000, 0), Fate: "fail", Dup: 3, Expiry: e1}, {By: (ti / 2) % 2, Amt: sat(200000, 0), Fate: "settle", Dup: 3, Expiry: e2},
				{By: 1 - (ti/2)%2, Amt: sat(th[0]+th[2], 7), Fate: "settle"},
			}}})
			out = append(out, chanmc.Space{Dev: dev, P: chanmc.Params{Type: typ, OpenerB: !openerB, Fees: []int64{5000}, Script: []chanmc.Intent{
				{By: 0, Amt: sat(th[1]-1, 0), Fate: "malformed"}, {By: 1, Amt: sat(th[2], 0), Fate: "settle"},
				{By: 1, Amt: sat(th[3]-1, 500), Fate: "fail"},
			}}})
		}
	}
	return out
}

func TestC01(t *testing.T) {
	run := evid.Start("C01", "model_checking")
	if rp := os.Getenv("VERIF_REPLAY"); rp != "" {
		if err := chanmc.Replay(run, rp); err != nil {
			t.Fatalf("replay: %v", err)
		}
		os.Exit(run.Finish(map[string]any{"evaluations": 1, "distinct_nontrivial": 2, "states": 1, "transitions": 1, "traces_validated_against_impl": 1, "samples": []any{rp}}))
	}
	budget := 300 * time.Second
	if run.Thorough() {
		budget = 35 * time.Minute
	}
	if s := os.Getenv("VERIF_BUDGET_S"); s != "" {
		if n, err := strconv.Atoi(s); err == nil {
			budget = time.Duration(n) * time.Second
		}
	}
	sp := spaces(run.Thorough())
	agg := chanmc.RunSpaces(run, sp, time.Now().Add(budget), 0)
	cov := agg.Coverage("state = canonical projection of both real LightningChannels + wires + explorer HTLC table; transition = one lnd API call sequence (AddHTLC/Settle/Fail/UpdateFee/SignNextCommitment or delivery of the head of a FIFO wire into Receive*); every transition runs the sig-verifies, msat-conservation, exact-balance, fee/dust/tx-output oracles on every commitment either side holds; terminal states run the mirror oracle; distinct_nontrivial = distinct canonical states")
	run.Assumptions = append(run.Assumptions,
		"scripts of at most 3 HTLCs and one fee update; amounts from the dust-straddling alphabet; custom (aux-leaf) channels outside the alphabet",
		"canonical state drops signatures/nonces/txids (functions of the kept fields); the signature oracle runs on transitions")
	if code := run.Finish(cov); code != 0 {
		os.Exit(code)
	}
}
