// C01: both peers agree on every commitment; value is conserved.
// Explicit-state exploration of all interleavings of a two-peer script on the
// real LightningChannel state machines (see engine/chanmc).
package c01

import (
	"os"
	"sort"
	"strconv"
	"strings"
	"sync"
	"testing"
	"time"

	"github.com/lightningnetwork/lnd/verifmc/chanmc"
	"github.com/lightningnetwork/lnd/verifmc/evid"
)

func sat(s int64, extraMsat uint64) uint64 { return uint64(s)*1000 + extraMsat }

// spaces builds the exploration jobs of a tier.
func spaces(thorough bool) []chanmc.Space {
	var out []chanmc.Space
	fullTypes := []string{"tweakless", "zerofee", "taprootfinal"}
	if thorough {
		fullTypes = chanmc.AllTypes
	}
	for _, typ := range fullTypes {
		for _, openerB := range []bool{false, true} {
			th := chanmc.Thresholds(typ, 6000, 200, 1300)
			// 2-HTLC scripts, full interleaving. Amount profiles straddle the
			// four dust thresholds (dust on one commitment only, msat remainders).
			profiles := [][2]uint64{
				{sat(th[0], 0) - 1, sat(th[2]-1, 999)}, // A: 1 msat below its own threshold; B: just below its own, with remainder
				{sat(th[1]-1, 999), sat(th[3], 0)},     // A: dust on B's commitment only; B: exactly at A's threshold
			}
			if thorough {
				profiles = append(profiles, [2]uint64{sat(th[1], 0), sat(th[2], 1)}, [2]uint64{sat(20000, 500), sat(th[3]-1, 0)})
			}
			for pi, pr := range profiles {
				fates := [][2]string{{"settle", "fail"}, {"malformed", "settle"}}
				f := fates[pi%2]
				out = append(out, chanmc.Space{Dev: -1, P: chanmc.Params{Type: typ, OpenerB: openerB, Script: []chanmc.Intent{
					{By: 0, Amt: pr[0], Fate: f[0]}, {By: 1, Amt: pr[1], Fate: f[1]},
				}}})
			}
			// one HTLC and a fee update by the opener, full interleaving
			op := 0
			if openerB {
				op = 1
			}
			out = append(out, chanmc.Space{Dev: -1, P: chanmc.Params{Type: typ, OpenerB: openerB, Fees: []int64{7000},
				Script: []chanmc.Intent{{By: 1 - op, Amt: sat(th[0]+1, 0), Fate: "settle"}}}})
		}
	}
	// 3-HTLC scripts (incl. an equal hash/amount/expiry duplicate pair) on all
	// seven types: deviation-bounded around the eager schedule (quick), full (thorough).
	devs := []int{2}
	if thorough {
		// first everything within 3 deviations of the eager schedule on all
		// types, then the full interleavings for as long as the budget lasts
		devs = []int{3, -1}
	}
	for _, dev := range devs {
		for ti, typ := range chanmc.AllTypes {
			th := chanmc.Thresholds(typ, 6000, 200, 1300)
			openerB := ti%2 == 1
			out = append(out, chanmc.Space{Dev: dev, P: chanmc.Params{Type: typ, OpenerB: openerB, Script: []chanmc.Intent{
				{By: 0, Amt: sat(30000, 0), Fate: "settle", Dup: 1}, {By: 0, Amt: sat(30000, 0), Fate: "fail", Dup: 1},
				{By: 1, Amt: sat(th[3], 999), Fate: "settle"},
			}}})
			// two shards of one payment: equal hash and expiry, different amounts,
			// the larger one first (BIP69 puts the smaller output first)
			out = append(out, chanmc.Space{Dev: dev, P: chanmc.Params{Type: typ, OpenerB: openerB, Script: []chanmc.Intent{
				{By: ti % 2, Amt: sat(300000, 0), Fate: "settle", Dup: 2}, {By: ti % 2, Amt: sat(100000, 0), Fate: "settle", Dup: 2},
				{By: 1 - ti%2, Amt: sat(th[0]+th[2], 0), Fate: "fail"},
			}}})
			// two HTLCs with equal hash and amount but different expiry: as offered
			// outputs they are byte-identical, so which output is paired with which
			// HTLC (BOLT 3: ties broken by CLTV) is observable only through the
			// lock time of the second-level transactions both sides sign and verify;
			// added in descending and in ascending expiry order
			e1, e2 := uint32(500), uint32(400)
			if ti%2 == 1 {
				e1, e2 = 400, 500
			}
			out = append(out, chanmc.Space{Dev: dev, P: chanmc.Params{Type: typ, OpenerB: openerB, Script: []chanmc.Intent{
				{By: (ti / 2) % 2, Amt: sat(200000, 0), Fate: "fail", Dup: 3, Expiry: e1}, {By: (ti / 2) % 2, Amt: sat(200000, 0), Fate: "settle", Dup: 3, Expiry: e2},
				{By: 1 - (ti/2)%2, Amt: sat(th[0]+th[2], 7), Fate: "settle"},
			}}})
			out = append(out, chanmc.Space{Dev: dev, P: chanmc.Params{Type: typ, OpenerB: !openerB, Fees: []int64{5000}, Script: []chanmc.Intent{
				{By: 0, Amt: sat(th[1]-1, 0), Fate: "malformed"}, {By: 1, Amt: sat(th[2], 0), Fate: "settle"},
				{By: 1, Amt: sat(th[3]-1, 500), Fate: "fail"},
			}}})
		}
	}
	return out
}

// baseFee is the fee rate both height-0 commitments are created with.
const baseFee = 6000

// feeLetters is the update_fee value alphabet, stated relative to the rates the
// channel already knows: the rate committed at funding (a *revert* once another
// rate is pending or committed), one rate above and one below it (on the types
// with fee-bearing second-level transactions the HTLC of the scripts below is
// non-dust at baseFee and at the lower rate and dust at the higher one).
// Sequences over this alphabet contain every equality pattern between an
// update_fee and the earlier ones: equal to the committed rate, equal to the
// pending rate (x,x), back to a rate used before (x,y,x), all distinct.
var feeLetters = []int64{baseFee, 7000, 5000}

// feeSeqs returns every sequence of exactly n letters.
func feeSeqs(n int) [][]int64 {
	if n == 0 {
		return [][]int64{nil}
	}
	var out [][]int64
	for _, pre := range feeSeqs(n - 1) {
		for _, l := range feeLetters {
			out = append(out, append(append([]int64{}, pre...), l))
		}
	}
	return out
}

// feeABA are the length-3 sequences x,y,x (y != x): the third update returns to
// a rate used earlier that is not the immediately preceding one - the one
// equality pattern that does not occur among the sequences of length <= 2.
func feeABA() [][]int64 {
	var out [][]int64
	for _, fs := range feeSeqs(3) {
		if fs[0] == fs[2] && fs[0] != fs[1] {
			out = append(out, fs)
		}
	}
	return out
}

// feeSpaces is the update_fee sequence family: sequences of fee updates over
// feeLetters, sent by the opener, ALL interleavings with the commitment dance
// (so every way of batching several update_fee under one commitment_signed,
// every way of signing them one at a time, every delivery order), crossed with
// channel type x opener x HTLC context (0 = none / 1 = one HTLC offered by the
// opener, later failed / 2 = one offered by the non-opener, later settled; amount
// 1 sat above the offerer's own dust threshold at baseFee). The oracles are the
// ordinary C01 ones (chanmc): nothing here knows which sequences are special.
//
// Crossing rule (cells = type x opener; quick has 3 types = 6 cells, thorough 7 types = 14 cells):
//
//	context 0, every sequence of length 1 and 2:  every cell                      (both tiers)
//	context 0, length 3:  quick: the 6 x,y,x sequences, one per cell; thorough: all 27, every cell
//	context 1 and 2, length 2:  quick: the 4 sequences whose second update replaces/follows a
//	    non-committed rate by a different one ((up,base) (down,base) (up,down) (down,up): with the
//	    HTLC 1 sat above dust these move it across the threshold and back), one cell each, both
//	    openers of the fee-bearing type first; thorough: all 9, every type, opener alternating with
//	    type+context+sequence index
//	context 1 and 2, length 3:  thorough only: the 6 x,y,x sequences, each once per context, rotated over the cells
func feeSpaces(thorough bool, types []string) []chanmc.Space {
	var out []chanmc.Space
	mk := func(typ string, openerB bool, fees []int64, ctx int) {
		op := 0
		if openerB {
			op = 1
		}
		p := chanmc.Params{Type: typ, OpenerB: openerB, FeePerKw: baseFee, Fees: fees}
		th := chanmc.Thresholds(typ, baseFee, 200, 1300)
		switch ctx {
		case 1: // offered by the opener
			p.Script = []chanmc.Intent{{By: op, Amt: sat(th[2*op]+1, 0), Fate: "fail"}}
		case 2: // offered by the non-opener
			p.Script = []chanmc.Intent{{By: 1 - op, Amt: sat(th[2*(1-op)]+1, 0), Fate: "settle"}}
		}
		out = append(out, chanmc.Space{Dev: -1, P: p})
	}
	ncells := 2 * len(types)
	cellAt := func(c int) (string, bool) { c %= ncells; return types[c/2], c%2 == 1 }
	for ci := 0; ci < ncells; ci++ {
		typ, openerB := cellAt(ci)
		for _, fs := range feeSeqs(1) {
			mk(typ, openerB, fs, 0)
		}
		for _, fs := range feeSeqs(2) {
			mk(typ, openerB, fs, 0)
		}
		if thorough {
			for _, fs := range feeSeqs(3) {
				mk(typ, openerB, fs, 0)
			}
		}
	}
	if !thorough {
		for si, fs := range feeABA() {
			typ, openerB := cellAt(si)
			mk(typ, openerB, fs, 0)
		}
		// (sequence, context, cell): cells 0,1 = first type (tweakless: second-level fees depend on the rate)
		for i, q := range [][]int64{{7000, baseFee}, {5000, baseFee}, {7000, 5000}, {5000, 7000}} {
			typ, openerB := cellAt([]int{0, 1, 2, ncells - 1}[i])
			mk(typ, openerB, q, 2-i%2)
		}
		return out
	}
	for ctx := 1; ctx <= 2; ctx++ {
		for si, fs := range feeSeqs(2) {
			for ti, typ := range types {
				mk(typ, (ti+ctx+si)%2 == 1, fs, ctx)
			}
		}
		for si, fs := range feeABA() {
			typ, ob := cellAt(2*si + ctx)
			mk(typ, ob, fs, ctx)
		}
	}
	return out
}

// splitSpaces is the sign-before-revoke family (chanmc.Params.SplitRevoke): the
// answer to a commitment_signed is a step of its own, so a party may send its
// own commitment_signed (or add / resolve / take deliveries) between
// ReceiveNewCommitment and RevokeCurrentCommitment. lnd's link never does, but
// the order is legal inside the one-unacked-commitment window and the property
// quantifies over all interleavings of commitment_signed and revoke_and_ack
// sends. At that instant the receiver's in-memory local chain is one ahead of
// what it has acked, so anything the signer derives from the wrong chain (fee
// rate, acked log index) only differs there. Shapes: one fee update by the
// opener + one HTLC offered by the non-opener (so that the non-opener owes a
// signature while it owes the revocation) / by the opener, and 1+1 HTLCs
// without a fee update; full interleaving.
func splitSpaces(thorough bool) []chanmc.Space {
	var out []chanmc.Space
	mk := func(typ string, openerB bool, fees []int64, by ...int) {
		op := 0
		if openerB {
			op = 1
		}
		th := chanmc.Thresholds(typ, baseFee, 200, 1300)
		p := chanmc.Params{Type: typ, OpenerB: openerB, FeePerKw: baseFee, Fees: fees, SplitRevoke: true}
		for _, b := range by {
			who := op
			fate := "fail"
			if b == 1 {
				who, fate = 1-op, "settle"
			}
			p.Script = append(p.Script, chanmc.Intent{By: who, Amt: sat(th[2*who]+1, 0), Fate: fate})
		}
		out = append(out, chanmc.Space{Dev: -1, P: p})
	}
	if !thorough {
		// four cells, fee-bearing second-level types first; the HTLC is offered by the non-opener
		mk("tweakless", false, []int64{7000}, 1)
		mk("zerofee", true, []int64{5000}, 1)
		mk("taprootfinal", false, []int64{7000}, 1)
		mk("lease", true, []int64{5000}, 1)
		return out
	}
	for ti, typ := range chanmc.AllTypes {
		for _, openerB := range []bool{false, true} {
			mk(typ, openerB, []int64{7000}, 1)
			mk(typ, openerB, []int64{5000}, 0)
			if (ti%2 == 1) == openerB {
				mk(typ, openerB, nil, 0, 1)
			}
		}
	}
	return out
}

// breadthSpaces is the type x opener x offerer breadth family: ONE untrimmed
// HTLC, full interleaving (every asynchronous order of add / sign / revoke /
// resolve of both sides, ~90 states), on every one of the seven channel types x
// either opener x offered by the opener (failed malformed) / by the non-opener
// (settled). The main list reaches the four types outside its quick "full" set
// (legacy, anchors, lease, taproot staging) only with its last, deviation-bounded
// 3-HTLC spaces, which a deadline-capped run on a loaded machine does not get to
// (measured with --cover: no lease / anchors branch entered in 300 s at load 100+).
func breadthSpaces() []chanmc.Space {
	var out []chanmc.Space
	for _, typ := range chanmc.AllTypes {
		th := chanmc.Thresholds(typ, baseFee, 200, 1300)
		for _, openerB := range []bool{false, true} {
			op := 0
			if openerB {
				op = 1
			}
			out = append(out,
				chanmc.Space{Dev: -1, P: chanmc.Params{Type: typ, OpenerB: openerB, Script: []chanmc.Intent{{By: 1 - op, Amt: sat(th[1]+th[2], 1), Fate: "settle"}}}},
				chanmc.Space{Dev: -1, P: chanmc.Params{Type: typ, OpenerB: openerB, Script: []chanmc.Intent{{By: op, Amt: sat(th[0]+th[3], 0), Fate: "malformed"}}}})
		}
	}
	// Two shards of one payment (equal hash and expiry => byte-identical HTLC
	// scripts, different amounts, the larger first) offered by the same party,
	// full interleaving (667 states): the duplicate axis of the main list's last,
	// deviation-bounded spaces, brought forward on four cells (types outside the
	// quick "full" set first) so that a starved run still has it.
	for i, c := range []struct {
		typ     string
		openerB bool
		by      int
	}{{"anchors", true, 1}, {"tweakless", false, 0}, {"lease", false, 1}, {"taproot", true, 0}} {
		fate := []string{"settle", "fail"}[i%2]
		out = append(out, chanmc.Space{Dev: -1, P: chanmc.Params{Type: c.typ, OpenerB: c.openerB, Script: []chanmc.Intent{
			{By: c.by, Amt: sat(300000, 0), Fate: "settle", Dup: 2}, {By: c.by, Amt: sat(100000, 0), Fate: fate, Dup: 2}}}})
	}
	return out
}

// poorSpaces is the single-funder-start family: the non-opener starts with a
// gross balance of ZERO (what every channel opened without push_msat looks like)
// and the reserve is 1 sat, so that the only thing between its balance and zero
// are the dust rules. The opener pays it X, it pays Y back; (X, Y) put the
// non-opener's balance exactly at / 1 msat below either side's dust LIMIT, i.e.
// its to_local / to_remote output exists on neither, on one (the lower-dust
// owner's) or on both commitments, appears with the settle and disappears again
// with the payment back; Y is attempted in every interleaving, also while the
// balance is still zero (refused: constraint outcome) - full interleaving.
// Oracles unchanged: the first-principles tx-output / fee / conservation /
// exact-balance checks of chanmc already model trimmed balance outputs.
//
// Crossing rule: cells = type x opener; quick: 3 types, two of the four
// profiles per cell (profiles c%4 and (c+1)%4 on cell c, so every profile runs
// on at least 2 cells incl. both openers); thorough: all 4 profiles on all 14 cells.
func poorSpaces(thorough bool, types []string) []chanmc.Space {
	const lo, hi = 200, 1300 // the two dust limits (chanmc defaults A / B)
	type prof struct {
		x, y   uint64
		fx, fy string
	}
	profiles := []prof{
		{sat(lo, 0) - 1, sat(100, 0), "settle", "fail"},    // 199.999 sat: no balance output anywhere; a dust HTLC back
		{sat(lo, 0), sat(1, 0), "settle", "settle"},        // exactly the lower limit: output on the lower-dust owner's commitment only; 1 sat back trims it again
		{sat(hi, 0) - 1, sat(hi-lo, 0), "settle", "settle"}, // 1 msat below the higher limit; paying back leaves 199.999 sat
		{sat(hi, 0), 1, "settle", "malformed"},             // exactly the higher limit: output on both; a 1 msat HTLC back removes it from one while pending
	}
	var out []chanmc.Space
	ci := 0
	for _, typ := range types {
		for _, openerB := range []bool{false, true} {
			op := 0
			grossA := int64(10 * 100_000_000) // = capacity: B has exactly 0
			if openerB {
				op, grossA = 1, -1 // A has exactly 0
			}
			for pi, pr := range profiles {
				if !thorough && !(pi == ci%4 || pi == (ci+1)%4) {
					continue
				}
				out = append(out, chanmc.Space{Dev: -1, P: chanmc.Params{Type: typ, OpenerB: openerB, GrossA: grossA, ReserveSat: 1,
					Script: []chanmc.Intent{{By: op, Amt: pr.x, Fate: pr.fx}, {By: 1 - op, Amt: pr.y, Fate: pr.fy}}}})
			}
			// the same with a second, untrimmed HTLC of the opener in flight (later
			// failed), so that the balance output comes and goes next to an HTLC
			// output (anchors / fee of the HTLC output paid by the opener): profiles 1 and 3
			th := chanmc.Thresholds(typ, baseFee, lo, hi)
			for _, pi := range []int{1, 3} {
				// measured: 4.7k states per full space; quick takes four cells
				// (cell c with c%4 == 0, profile alternating) within 2 deviations of
				// the eager schedule, thorough every cell within 3
				dev := 3
				if !thorough {
					dev = 2
					if ci%4 != 0 || (pi == 3) != (ci%8 == 4) {
						continue
					}
				}
				pr := profiles[pi]
				out = append(out, chanmc.Space{Dev: dev, P: chanmc.Params{Type: typ, OpenerB: openerB, GrossA: grossA, ReserveSat: 1,
					Script: []chanmc.Intent{{By: op, Amt: pr.x, Fate: pr.fx}, {By: 1 - op, Amt: pr.y, Fate: pr.fy},
						{By: op, Amt: sat(th[0]+th[2], 0), Fate: "fail"}}}})
			}
			ci++
		}
	}
	return out
}

// boundSpaces is the channel-bounds family: the defaults of the chanmc fixture
// (241 HTLCs, max pending = capacity, min HTLC 0, equal reserves) never bind, so
// validateCommitmentSanity's per-party bound checks always took the same way.
// Here one party offers two HTLCs (X1 then X2) and ITS bound sits exactly at the
// boundary, the other party's bounds are different and loose (so a check against
// the wrong party's config, or against the wrong log counters in one of the four
// call sites AddHTLC / ReceiveHTLC / SignNextCommitment / ReceiveNewCommitment,
// gives sender and receiver different verdicts):
//
//	n1   max_accepted_htlcs 1 (peer 3): X2 is refused while X1 is still in the evaluated view
//	p-   max pending X1+X2-1 msat, p= exactly X1+X2 msat (peer: capacity)
//	m=   htlc_minimum exactly X2 msat, m+ X2+1 msat (peer: 1 msat)
//
// Full interleaving (X2 is attempted at every point of X1's life cycle; a refused
// intent is a constraint outcome and is dropped). Oracle unchanged: whatever the
// sender's AddHTLC accepted, every Receive*/Sign* of the honest exchange accepts.
// Quick: 5 letters x offerer {A,B}, type/opener rotating over the 14 cells, plus the
// x3 letter (see below) on two cells within 2 deviations;
// thorough: every letter x offerer x 14 cells, plus a third HTLC by the peer
// within 3 deviations of the eager schedule on one letter per cell.
func boundSpaces(thorough bool, types []string) []chanmc.Space {
	x1, x2 := sat(40000, 0), sat(25000, 500)
	letters := []struct {
		name string
		own  chanmc.Bounds
		peer chanmc.Bounds
	}{
		{"n1", chanmc.Bounds{MaxHtlcs: 1}, chanmc.Bounds{MaxHtlcs: 3}},
		{"p-", chanmc.Bounds{MaxPendingMsat: x1 + x2 - 1}, chanmc.Bounds{}},
		{"p=", chanmc.Bounds{MaxPendingMsat: x1 + x2}, chanmc.Bounds{MaxPendingMsat: x1}},
		{"m=", chanmc.Bounds{MinHtlcMsat: x2}, chanmc.Bounds{MinHtlcMsat: 1}},
		{"m+", chanmc.Bounds{MinHtlcMsat: x2 + 1}, chanmc.Bounds{MinHtlcMsat: 1}},
	}
	var out []chanmc.Space
	ncells := 2 * len(types)
	mk := func(cell, li, by int, third bool) {
		typ, openerB := types[(cell%ncells)/2], cell%2 == 1
		l := letters[li]
		p := chanmc.Params{Type: typ, OpenerB: openerB, Script: []chanmc.Intent{
			{By: by, Amt: x1, Fate: "settle"}, {By: by, Amt: x2, Fate: "fail"}}}
		p.Bounds[by], p.Bounds[1-by] = l.own, l.peer
		dev := -1
		if third {
			// the peer's loose bounds hold for its own offer: x1 passes all of them
			p.Script = append(p.Script, chanmc.Intent{By: 1 - by, Amt: x1, Fate: "settle"})
			dev = 3
		}
		out = append(out, chanmc.Space{Dev: dev, P: p})
	}
	// both directions loaded, the PEER's bounds exactly at what it offers (1 HTLC
	// of x1 msat) and the offerer's loose: every honest add is within its own
	// party's bounds, so none may be refused by anybody - unless a count or a sum
	// leaks from one party's updates into the other's (x3 letter; deviation-bounded)
	x3 := func(cell, by, dev int) {
		typ, openerB := types[(cell%ncells)/2], cell%2 == 1
		p := chanmc.Params{Type: typ, OpenerB: openerB, Script: []chanmc.Intent{
			{By: by, Amt: x1, Fate: "settle"}, {By: by, Amt: x2, Fate: "fail"}, {By: 1 - by, Amt: x1, Fate: "settle"}}}
		p.Bounds[by] = chanmc.Bounds{MaxHtlcs: 3}
		p.Bounds[1-by] = chanmc.Bounds{MaxHtlcs: 1, MaxPendingMsat: x1, MinHtlcMsat: x1}
		out = append(out, chanmc.Space{Dev: dev, P: p})
	}
	if !thorough {
		for li := range letters {
			for by := 0; by < 2; by++ {
				mk(2*li+by+li/3, li, by, false)
			}
		}
		x3(5, 0, 2)
		x3(8, 1, 2)
		return out
	}
	for cell := 0; cell < ncells; cell++ {
		x3(cell, cell/2%2, 3)
	}
	for cell := 0; cell < ncells; cell++ {
		for li := range letters {
			for by := 0; by < 2; by++ {
				mk(cell, li, by, false)
			}
		}
		mk(cell, cell%len(letters), cell/2%2, true)
	}
	return out
}

// mergeAgg adds b's coverage to a (the exploration of the fee family runs in
// its own lanes next to the main list, each lane with its own Agg).
func mergeAgg(a, b *chanmc.Agg) {
	a.States += b.States
	a.Transitions += b.Transitions
	a.Replays += b.Replays
	a.ReplaySteps += b.ReplaySteps
	a.Terminals += b.Terminals
	if b.MaxDepth > a.MaxDepth {
		a.MaxDepth = b.MaxDepth
	}
	a.Spaces += b.Spaces
	a.Complete += b.Complete
	a.Caps = append(a.Caps, b.Caps...)
	a.PerSpace = append(a.PerSpace, b.PerSpace...)
	if len(a.Samples) < 6 && len(b.Samples) > 0 {
		a.Samples = append(a.Samples, b.Samples[0])
	}
	a.Stats.SigsVerified.Add(b.Stats.SigsVerified.Load())
	a.Stats.CommitsChecked.Add(b.Stats.CommitsChecked.Load())
	a.Stats.Reloads.Add(b.Stats.Reloads.Load())
	a.Stats.Retransmissions.Add(b.Stats.Retransmissions.Load())
	a.Stats.ConstraintNoops.Add(b.Stats.ConstraintNoops.Load())
	a.Stats.MirrorChecks.Add(b.Stats.MirrorChecks.Load())
	a.Stats.RevokesChecked.Add(b.Stats.RevokesChecked.Load())
	a.Stats.CrashMidStep.Add(b.Stats.CrashMidStep.Load())
	if b.Stats.MaxWrites.Load() > a.Stats.MaxWrites.Load() {
		a.Stats.MaxWrites.Store(b.Stats.MaxWrites.Load())
	}
	a.Stats.SideWrites.Add(b.Stats.SideWrites.Load())
	a.Stats.SideRefused.Add(b.Stats.SideRefused.Load())
}

func TestC01(t *testing.T) {
	run := evid.Start("C01", "model_checking")
	if rp := os.Getenv("VERIF_REPLAY"); rp != "" {
		if err := chanmc.Replay(run, rp); err != nil {
			t.Fatalf("replay: %v", err)
		}
		os.Exit(run.Finish(map[string]any{"evaluations": 1, "distinct_nontrivial": 2, "states": 1, "transitions": 1, "traces_validated_against_impl": 1, "samples": []any{rp}}))
	}
	budget := 300 * time.Second
	if run.Thorough() {
		budget = 35 * time.Minute
	}
	if s := os.Getenv("VERIF_BUDGET_S"); s != "" {
		if n, err := strconv.Atoi(s); err == nil {
			budget = time.Duration(n) * time.Second
		}
	}
	sp := spaces(run.Thorough())
	ft := []string{"tweakless", "zerofee", "taprootfinal"}
	if run.Thorough() {
		ft = chanmc.AllTypes
	}
	fee := feeSpaces(run.Thorough(), ft)
	fee = append(fee, splitSpaces(run.Thorough())...)
	// the axis-audit families rotate over ALL seven types in both tiers (their
	// spaces are small), cheapest first, in lanes of their own: a deadline on a
	// loaded machine then cuts the depth of the main list, not the type breadth
	axis := breadthSpaces()
	axis = append(axis, boundSpaces(run.Thorough(), chanmc.AllTypes)...)
	axis = append(axis, poorSpaces(run.Thorough(), chanmc.AllTypes)...)
	// development aids: VERIF_C01_FAMILY=main|fee keeps one family, VERIF_C01_MATCH=<s> the spaces whose name contains s
	switch os.Getenv("VERIF_C01_FAMILY") {
	case "main":
		fee, axis = nil, nil
	case "fee":
		sp, axis = nil, nil
	case "axis":
		sp, fee = nil, nil
	}
	if m := os.Getenv("VERIF_C01_MATCH"); m != "" {
		filter := func(in []chanmc.Space) (keep []chanmc.Space) {
			for _, s := range in {
				if strings.Contains(s.P.Name(), m) {
					keep = append(keep, s)
				}
			}
			return keep
		}
		sp, fee, axis = filter(sp), filter(fee), filter(axis)
	}
	// The fee family consists of many small spaces (11 .. 3k states), which a
	// single explore.Run cannot spread over the cores; they run in feeLanes
	// lanes of their own next to the main list (cheapest spaces first,
	// round-robin), all under the same deadline.
	const feeLanes, laneWorkers = 3, 2
	deadline := time.Now().Add(budget)
	sort.SliceStable(fee, func(i, j int) bool { // cheapest first: a deadline then cuts the largest spaces
		wi, wj := len(fee[i].P.Script)*10+len(fee[i].P.Fees), len(fee[j].P.Script)*10+len(fee[j].P.Fees)
		return wi < wj
	})
	lanes := make([][]chanmc.Space, feeLanes)
	for i, s := range fee {
		lanes[i%feeLanes] = append(lanes[i%feeLanes], s)
	}
	laneAgg := make([]*chanmc.Agg, feeLanes)
	var wg sync.WaitGroup
	for l := range lanes {
		if len(lanes[l]) == 0 {
			continue
		}
		wg.Add(1)
		go func(l int) {
			defer wg.Done()
			laneAgg[l] = chanmc.RunSpaces(run, lanes[l], deadline, laneWorkers)
		}(l)
	}
	// The single-funder-start and channel-bounds families (axis audit) are small
	// spaces too (0.3k .. 1.5k states): two more lanes of their own, cheapest first.
	const axisLanes = 2
	axisCost := func(s chanmc.Space) int { // measured: breadth 90, single-funder start 129, bounds 41..667 states; 3-HTLC spaces 1.8k..2.9k
		c := len(s.P.Script) * 10
		if s.P.Bounds != ([2]chanmc.Bounds{}) {
			c++
		}
		if len(s.P.Script) == 2 && s.P.Script[0].Dup != 0 {
			c = 15 // the shard pairs directly after the 1-HTLC spaces
		}
		return c
	}
	sort.SliceStable(axis, func(i, j int) bool { return axisCost(axis[i]) < axisCost(axis[j]) })
	alanes := make([][]chanmc.Space, axisLanes)
	for i, s := range axis {
		alanes[i%axisLanes] = append(alanes[i%axisLanes], s)
	}
	axisLaneAgg := make([]*chanmc.Agg, axisLanes)
	for l := range alanes {
		if len(alanes[l]) == 0 {
			continue
		}
		wg.Add(1)
		go func(l int) {
			defer wg.Done()
			axisLaneAgg[l] = chanmc.RunSpaces(run, alanes[l], deadline, laneWorkers)
		}(l)
	}
	agg := chanmc.RunSpaces(run, sp, deadline, 0)
	wg.Wait()
	axisAgg := &chanmc.Agg{}
	var axisRecheck []any
	for _, la := range axisLaneAgg {
		if la == nil {
			continue
		}
		mergeAgg(axisAgg, la)
		if la.Recheck != nil {
			axisRecheck = append(axisRecheck, la.Recheck)
		}
	}
	axisCells := map[string]int{} // per-cell counts: family letter -> completed spaces
	for _, ps := range axisAgg.PerSpace {
		name, _ := ps["space"].(string)
		k := "single_funder_start"
		if strings.Contains(name, "/bounds") {
			k = "bounds"
		} else if !strings.Contains(name, ",") || strings.Contains(name, "300000000s,") {
			k = "breadth"
		}
		if ps["exhaustive"] == true {
			axisCells[k+"_completed"]++
		}
		axisCells[k+"_spaces"]++
	}
	var feeRecheck []any
	feeAgg := &chanmc.Agg{}
	for _, la := range laneAgg {
		if la == nil {
			continue
		}
		mergeAgg(feeAgg, la)
		if la.Recheck != nil {
			feeRecheck = append(feeRecheck, la.Recheck)
		}
	}
	// Determinism re-check of the family's own shapes (the engine-level re-check of a
	// lane takes the lane's first space, a one-fee space): re-explore the first
	// completed no-HTLC space with two and with three fee updates (first two rates distinct) and require
	// identical state and transition counts (a difference = hidden state outside
	// the canonical key, e.g. a pending fee entry the key does not determine).
	first := map[string]map[string]any{}
	for _, ps := range feeAgg.PerSpace {
		if name, ok := ps["space"].(string); ok && ps["exhaustive"] == true {
			first[name] = ps
		}
	}
	var again []chanmc.Space
	for _, want := range []int{2, 3} {
		for _, s := range fee {
			if len(s.P.Script) == 0 && len(s.P.Fees) == want && s.P.Fees[0] != s.P.Fees[1] && first[s.P.Name()] != nil {
				again = append(again, s)
				break
			}
		}
	}
	if len(again) > 0 && time.Now().Before(deadline) {
		second := chanmc.RunSpaces(run, again, deadline, laneWorkers*feeLanes)
		for _, ps := range second.PerSpace {
			name, _ := ps["space"].(string)
			f := first[name]
			if f == nil || ps["exhaustive"] != true {
				continue
			}
			same := f["states"] == ps["states"] && f["transitions"] == ps["transitions"]
			feeRecheck = append(feeRecheck, map[string]any{"space": name, "states_first": f["states"], "states_second": ps["states"],
				"transitions_first": f["transitions"], "transitions_second": ps["transitions"], "identical": same})
			if !same {
				feeAgg.Caps = append(feeAgg.Caps, "nondeterminism_detected in "+name)
			}
		}
	}
	mainStates, mainSpaces := agg.States, agg.Spaces
	mergeAgg(agg, feeAgg)
	mergeAgg(agg, axisAgg)
	cov := agg.Coverage("state = canonical projection of both real LightningChannels + wires + explorer HTLC table; transition = one lnd API call sequence (AddHTLC/Settle/Fail/UpdateFee/SignNextCommitment or delivery of the head of a FIFO wire into Receive*); every transition runs the sig-verifies, msat-conservation, exact-balance, fee/dust/tx-output oracles on every commitment either side holds; terminal states run the mirror oracle; distinct_nontrivial = distinct canonical states")
	cov["families"] = map[string]any{
		"main":          map[string]any{"spaces": mainSpaces, "states": mainStates},
		"fee_sequences": map[string]any{"spaces": feeAgg.Spaces, "spaces_completed": feeAgg.Complete, "states": feeAgg.States, "transitions": feeAgg.Transitions, "terminal_states": feeAgg.Terminals, "letters": feeLetters, "lanes": feeLanes, "determinism_rechecks": feeRecheck},
		"axis_audit": map[string]any{"families": "breadth (1 HTLC, 7 types x opener x offerer), bounds (max_accepted_htlcs / max pending / htlc_minimum at the boundary), single_funder_start (non-opener starts at 0, balance outputs at the dust limits)", "spaces": axisAgg.Spaces, "spaces_completed": axisAgg.Complete, "states": axisAgg.States, "transitions": axisAgg.Transitions, "terminal_states": axisAgg.Terminals, "constraint_refusals": axisAgg.Stats.ConstraintNoops.Load(), "cells": axisCells, "lanes": axisLanes, "determinism_rechecks": axisRecheck},
	}
	run.Assumptions = append(run.Assumptions,
		"scripts of at most 3 HTLCs and one fee update; fee-sequence family: at most 3 update_fee over {committed rate, one above, one below} with at most one HTLC; amounts from the dust-straddling alphabet; single-funder-start family: non-opener starts at 0 sat, reserve 1 sat, 2 HTLCs; bounds family: one party's max_accepted_htlcs / max pending / htlc_minimum at the boundary with 2 (+1) HTLCs; custom (aux-leaf) channels outside the alphabet",
		"canonical state drops signatures/nonces/txids (functions of the kept fields); the signature oracle runs on transitions")
	if code := run.Finish(cov); code != 0 {
		os.Exit(code)
	}
}
