// neg_test.go: legacy fee negotiation between two real chancloser.ChanCloser
// instances sitting on the two real channels of a pair. The harness is the wire:
// shutdown exchange, BeginNegotiation on both sides, then closing_signed messages
// are carried back and forth until nobody has anything left to send.
package c17

import (
	"bytes"
	"fmt"

	"github.com/btcsuite/btcd/btcutil/v2"
	"github.com/btcsuite/btcd/chaincfg/v2"
	"github.com/btcsuite/btcd/wire/v2"
	"github.com/lightningnetwork/lnd/channeldb"
	"github.com/lightningnetwork/lnd/lntypes"
	"github.com/lightningnetwork/lnd/lnwallet/chainfee"
	"github.com/lightningnetwork/lnd/lnwallet/chancloser"
	"github.com/lightningnetwork/lnd/lnwire"
	"github.com/lightningnetwork/lnd/peer"
	"github.com/lightningnetwork/lnd/verifmc/chanmc"
)

const (
	negHeight   = 600_000 // above the lease thaw height
	maxNegMsgs  = 50
	negFeeLo    = 100
	negFeeHi    = 700
	negDiagonal = 3
)

// NegCase is one negotiation.
type NegCase struct {
	IdealOpener int64 `json:"ideal_opener"` // ideal fee (sat) of the channel opener, who pays and makes the first offer
	IdealOther  int64 `json:"ideal_other"`
	// CapOpener: 1: MaxFee = own ideal; 3: lnd's default 3x ideal; 0: MaxFee is
	// exactly the other side's (higher) ideal fee, the smallest cap under which the
	// other's ideal still lies within the opener's cap.
	CapOpener int `json:"cap_opener"`
	CapOther  int `json:"cap_other"` // the multiplier under which the opener's ideal lies within the other's cap (not enforced by lnd for the non-payer)
	Closer    int `json:"closer"`    // who sends shutdown first; 2 = both at the same time
	// EarlyOffer: the opener's first closing_signed is delivered before the other
	// side has called BeginNegotiation (lnd caches it).
	EarlyOffer bool   `json:"early_offer"`
	SA         string `json:"script_a"`
	SB         string `json:"script_b"`
	// Estimator: "" = identity (ideal values are absolute fees); "simple" = lnd's
	// own chancloser.SimpleCoopFeeEstimator, the ideal values are sat/kw rates.
	Estimator string `json:"estimator,omitempty"`
	// Upfront: both channels carry upfront shutdown scripts equal to the delivery scripts.
	Upfront bool `json:"upfront,omitempty"`
	// Height: the negotiation height handed to NewChanCloser (0 = negHeight).
	Height uint32 `json:"height,omitempty"`
}

// identityEstimator makes "fee rate" and "absolute fee" the same number, so
// the ideal fee of a ChanCloser is exactly the case's value.
type identityEstimator struct{}

func (identityEstimator) EstimateFee(_ channeldb.ChannelType, _, _ *wire.TxOut, rate chainfee.SatPerKWeight) btcutil.Amount {
	return btcutil.Amount(rate)
}

type negMsg struct {
	to  int
	msg lnwire.ClosingSigned
}

func runNeg(p *pair, c NegCase, tr tracer, h *harness) verdict {
	scripts := [2][]byte{deliveryScript(c.SA, 0), deliveryScript(c.SB, 1)}
	op, np := p.opener, 1-p.opener
	ideal := [2]int64{}
	ideal[op], ideal[np] = c.IdealOpener, c.IdealOther
	v := verdict{}
	tag := fmt.Sprintf("%s/cap%d", p.typName, c.CapOpener)
	fail := func(sig, f string, a ...any) verdict {
		v.sig = "legacy:" + sig + ":" + tag
		v.what = fmt.Sprintf(f, a...) + fmt.Sprintf(" [%s case %+v]", p.src.Name(), c)
		v.class = "VIOLATION:" + sig
		return v
	}
	defer func() {
		p.ch[0].ResetState()
		p.ch[1].ResetState()
	}()
	var (
		cc    [2]*chancloser.ChanCloser
		bcast [2][]*wire.MsgTx
	)
	for i := 0; i < 2; i++ {
		i := i
		cfg := chancloser.ChanCloseCfg{
			Channel:        p.ch[i],
			BroadcastTx:    func(tx *wire.MsgTx, _ string) error { bcast[i] = append(bcast[i], tx); return nil },
			DisableChannel: func(wire.OutPoint) error { return nil },
			Disconnect:     func() error { return nil },
			ChainParams:    &chaincfg.RegressionNetParams,
			Quit:           make(chan struct{}),
			FeeEstimator:   identityEstimator{},
		}
		if c.Estimator == "simple" {
			cfg.FeeEstimator = &chancloser.SimpleCoopFeeEstimator{}
		}
		if p.ct.IsTaproot() {
			cfg.MusigSession = peer.NewMusigChanCloser(p.ch[i])
		}
		if i == op {
			switch c.CapOpener {
			case 1:
				cfg.MaxFee = chainfee.SatPerKWeight(c.IdealOpener)
			case 0:
				cfg.MaxFee = chainfee.SatPerKWeight(c.IdealOther)
			}
		}
		who := lntypes.Remote
		if i == c.Closer || c.Closer == 2 {
			who = lntypes.Local
		}
		height := uint32(negHeight)
		if c.Height != 0 {
			height = c.Height
		}
		cc[i] = chancloser.NewChanCloser(cfg, chancloser.DeliveryAddrWithKey{DeliveryAddress: scripts[i]},
			chainfee.SatPerKWeight(ideal[i]), height, nil, who)
	}
	if c.Upfront {
		// what the funding flow would have stored on both sides
		for i := 0; i < 2; i++ {
			st := p.ch[i].State()
			st.LocalShutdownScript, st.RemoteShutdownScript = scripts[i], scripts[1-i]
		}
		defer func() {
			for i := 0; i < 2; i++ {
				st := p.ch[i].State()
				st.LocalShutdownScript, st.RemoteShutdownScript = nil, nil
			}
		}()
	}
	// shutdown exchange
	if c.Closer == 2 {
		var sds [2]*lnwire.Shutdown
		for i := 0; i < 2; i++ {
			sd, err := cc[i].ShutdownChan()
			if err != nil {
				return fail("shutdown-error", "%s.ShutdownChan: %v", partyName(i), err)
			}
			tr.log("%s -> shutdown(script %x)", partyName(i), sd.Address)
			sds[i] = sd
		}
		for i := 0; i < 2; i++ {
			if r2, err := cc[i].ReceiveShutdown(*sds[1-i]); err != nil || r2.IsSome() {
				return fail("shutdown-error", "%s.ReceiveShutdown(crossed): err=%v extra=%v", partyName(i), err, r2.IsSome())
			}
		}
	} else {
		s := c.Closer
		sd, err := cc[s].ShutdownChan()
		if err != nil {
			return fail("shutdown-error", "%s.ShutdownChan: %v", partyName(s), err)
		}
		tr.log("%s -> shutdown(script %x)", partyName(s), sd.Address)
		resp, err := cc[1-s].ReceiveShutdown(*sd)
		if err != nil {
			return fail("shutdown-error", "%s.ReceiveShutdown: %v", partyName(1-s), err)
		}
		if resp.IsNone() {
			return fail("shutdown-error", "%s did not answer shutdown", partyName(1-s))
		}
		sd2 := resp.UnsafeFromSome()
		tr.log("%s -> shutdown(script %x)", partyName(1-s), sd2.Address)
		if r2, err := cc[s].ReceiveShutdown(sd2); err != nil || r2.IsSome() {
			return fail("shutdown-error", "%s.ReceiveShutdown(reply): err=%v extra=%v", partyName(s), err, r2.IsSome())
		}
	}

	// negotiation
	var (
		queue  []negMsg
		msgs   int
		signed [2]map[int64]bool
		last   int64 = -1
	)
	signed[0], signed[1] = map[int64]bool{}, map[int64]bool{}
	send := func(from int, m lnwire.ClosingSigned) {
		signed[from][int64(m.FeeSatoshis)] = true
		last = int64(m.FeeSatoshis)
		queue = append(queue, negMsg{to: 1 - from, msg: m})
		tr.log("%s -> closing_signed(fee=%d)", partyName(from), m.FeeSatoshis)
	}
	begin := func(i int) error {
		r, err := cc[i].BeginNegotiation()
		if err != nil {
			return fmt.Errorf("%s.BeginNegotiation: %w", partyName(i), err)
		}
		tr.log("%s.BeginNegotiation (ideal %d) -> offer=%v", partyName(i), ideal[i], r.IsSome())
		if r.IsSome() {
			send(i, r.UnsafeFromSome())
		}
		return nil
	}
	deliver := func() error {
		m := queue[0]
		queue = queue[1:]
		msgs++
		r, err := cc[m.to].ReceiveClosingSigned(m.msg)
		if err != nil {
			return fmt.Errorf("%s.ReceiveClosingSigned(fee=%d): %w", partyName(m.to), m.msg.FeeSatoshis, err)
		}
		if r.IsSome() {
			send(m.to, r.UnsafeFromSome())
		}
		return nil
	}
	if c.EarlyOffer {
		if err := begin(op); err != nil {
			return fail("negotiation-error", "%v", err)
		}
		if len(queue) > 0 {
			if err := deliver(); err != nil {
				return fail("negotiation-error", "%v", err)
			}
		}
		if err := begin(np); err != nil {
			return fail("negotiation-error", "%v", err)
		}
	} else {
		if err := begin(np); err != nil {
			return fail("negotiation-error", "%v", err)
		}
		if err := begin(op); err != nil {
			return fail("negotiation-error", "%v", err)
		}
	}
	for len(queue) > 0 {
		if msgs >= maxNegMsgs {
			return fail("no-termination", "negotiation still running after %d closing_signed messages (last fee %d)", msgs, last)
		}
		if err := deliver(); err != nil {
			return fail("negotiation-error", "%v", err)
		}
	}
	// outcome
	var txs [2]*wire.MsgTx
	for i := 0; i < 2; i++ {
		tx, err := cc[i].ClosingTx()
		if err != nil {
			return fail("not-finished", "wires are empty after %d messages but %s has not finished: %v", msgs, partyName(i), err)
		}
		txs[i] = tx
		if len(bcast[i]) == 0 || !bytes.Equal(txBytesNoWitness(bcast[i][len(bcast[i])-1]), txBytesNoWitness(tx)) {
			return fail("broadcast-mismatch", "%s finished without broadcasting its closing tx", partyName(i))
		}
	}
	if !bytes.Equal(txBytesNoWitness(txs[0]), txBytesNoWitness(txs[1])) {
		return fail("tx-not-identical", "the two sides finished on different transactions: A=%x B=%x", txBytesNoWitness(txs[0]), txBytesNoWitness(txs[1]))
	}
	fee := last
	if !signed[0][fee] || !signed[1][fee] {
		return fail("fee-not-signed-by-both", "final fee %d was not signed by both (A signed %v, B signed %v)", fee, signed[0], signed[1])
	}
	ref := refClose(p.gross, p.dust, fee, op, scripts)
	if !ref.ok {
		return fail("closed-unpayable", "negotiation closed on fee %d which the reference refuses (%s)", fee, ref.reason)
	}
	if sig, what := p.checkTxAgainstRef(txs[0], ref, fee, nil, nil); sig != "" {
		return fail(sig, "%s", what)
	}
	for i := 0; i < 2; i++ {
		if i == 1 && bytes.Equal(txBytesFull(txs[0]), txBytesFull(txs[1])) {
			continue
		}
		if err := p.engineVerdict(txs[i]); err != nil {
			return fail("script-invalid", "%s's final closing tx fails the script interpreter: %v", partyName(i), err)
		}
	}
	tr.log("finished after %d closing_signed messages on fee %d; outputs %s", msgs, fee, outsKey(txs[0].TxOut))
	if h != nil {
		h.roundHist.Add(fmt.Sprintf("%02d", msgs))
		for {
			m := h.maxRounds.Load()
			if int64(msgs) <= m || h.maxRounds.CompareAndSwap(m, int64(msgs)) {
				break
			}
		}
	}
	rel := "eq"
	switch {
	case c.IdealOpener < c.IdealOther:
		rel = "lt"
	case c.IdealOpener > c.IdealOther:
		rel = "gt"
	}
	who := "opener"
	switch {
	case c.Estimator != "":
		who = "est-" + c.Estimator // ideal values are rates, the agreed fee is not comparable with them
	case fee == c.IdealOpener:
	case fee == c.IdealOther:
		who = "other"
	default:
		who = "compromise"
	}
	closer := "both"
	if c.Closer < 2 {
		closer = partyName(c.Closer)
	}
	flags := ""
	if c.Upfront {
		flags += "u"
	}
	if c.Height != 0 {
		flags += "h"
	}
	v.class = fmt.Sprintf("agreed:%s:%s", who, ref.shape())
	v.cell = fmt.Sprintf("legacy|%s|open%s|closer%s|early%v|cap%d|%s|%s|%s|msgs%d|%s", p.typName, partyName(op), closer, c.EarlyOffer, c.CapOpener, flags, ref.shape(), rel, msgs, who)
	return v
}

// negPairs enumerates the ideal-fee pairs of the tier with their caps.
func negPairs(all bool, step int64, diag bool) []NegCase {
	var out []NegCase
	for a := int64(negFeeLo); a <= negFeeHi; a++ {
		for b := int64(negFeeLo); b <= negFeeHi; b++ {
			onGrid := (a-negFeeLo)%step == 0 && (b-negFeeLo)%step == 0
			d := a - b
			if d < 0 {
				d = -d
			}
			if !all && !onGrid && !(diag && d <= negDiagonal) {
				continue
			}
			// each ideal within the other's cap
			if b > 3*a || a > 3*b {
				continue
			}
			capOther := 3
			if a <= b {
				capOther = 1
			}
			out = append(out, NegCase{IdealOpener: a, IdealOther: b, CapOpener: 3, CapOther: capOther})
			if b <= a {
				out = append(out, NegCase{IdealOpener: a, IdealOther: b, CapOpener: 1, CapOther: capOther})
			}
			// the tightest admissible cap: MaxFee == the other's ideal. On the grid, and
			// wherever the opener capitulates to the first counter-offer (b within 30%
			// of a, +1), i.e. where its proposal hits the cap exactly.
			if a < b && (all || ((a-negFeeLo)%25 == 0 && (b-negFeeLo)%25 == 0) || b <= a+(a*3)/10+1) {
				out = append(out, NegCase{IdealOpener: a, IdealOther: b, CapOpener: 0, CapOther: capOther})
			}
		}
	}
	return out
}

func negSource(typ string, openerB bool) Source {
	return Source{P: chanmc.Params{Type: typ, OpenerB: openerB, Script: []chanmc.Intent{
		{By: 0, Amt: 50_000_123, Fate: "settle"}, {By: 1, Amt: 60_000_001, Fate: "settle"}}}}
}

// leaseThaw is the absolute thaw height of chanmc's lease channels (checked
// against the channel in every job that uses it).
const leaseThaw = 500_000

// negLowSources: 1 000 000 sat channels in which the non-opener's balance sits at
// {0, dust-1, dust, dust+1} (the estimator and the tx builder see one output
// only / just two) and one in which the opener's output flips with the fee
// (gross = dust + 250, or commit fee + anchors if that is more).
func negLowSources(typ string, openerB bool) []Source {
	var out []Source
	opener := 0
	if openerB {
		opener = 1
	}
	const kw = 253
	d := [2]int64{200, 1300}
	mk := func(x int, g int64) {
		grossA := g
		if x == 1 {
			grossA = lowCap - g
		}
		if grossA <= 0 || grossA > lowCap {
			return // GrossA == 0 means "default" in chanmc
		}
		out = append(out, Source{P: chanmc.Params{Type: typ, OpenerB: openerB, CapacitySat: lowCap, GrossA: grossA, ReserveSat: 1,
			DustA: d[0], DustB: d[1], FeePerKw: kw}})
	}
	x := 1 - opener
	for _, g := range []int64{0, d[x] - 1, d[x], d[x] + 1} {
		mk(x, g)
	}
	g := d[opener] + 250
	if cr := credit(typ, kw); cr > g {
		g = cr
	}
	mk(opener, g)
	return out
}

// negLowCases: ideal fees {100..400} (identity) / rates {200..500} sat/kw (lnd's
// estimator: 110..386 sat on 552..772 wu), every cap variant; closer and offer order rotate
// over the cases in quick, are crossed in thorough.
func negLowCases(thorough bool) []NegCase {
	var out []NegCase
	k := 0
	for _, est := range []string{"", "simple"} {
		vals := []int64{100, 175, 250, 325, 400}
		if est == "simple" {
			vals = []int64{200, 275, 350, 425, 500}
		}
		for _, a := range vals {
			for _, b := range vals {
				if b > 3*a || a > 3*b || (est != "" && (b >= 3*a || a >= 3*b)) {
					continue
				}
				caps := []int{3}
				if b <= a {
					caps = append(caps, 1)
				}
				if a < b {
					caps = append(caps, 0)
				}
				for _, cp := range caps {
					for closer := 0; closer < 3; closer++ {
						for e := 0; e < 2; e++ {
							if !thorough && (closer != k%3 || e != (k/3)%2) {
								continue
							}
							out = append(out, NegCase{IdealOpener: a, IdealOther: b, CapOpener: cp, CapOther: 3, Closer: closer, EarlyOffer: e == 1,
								SA: scriptKinds[k%3], SB: scriptKinds[(k/3+1)%3], Estimator: est})
						}
					}
					k++
				}
			}
		}
	}
	return out
}

func negJob(src Source, cases []NegCase, name string) job {
	return job{name: name, part: "legacy", f: func(h *harness) {
		h.withPair(src, func(p *pair) {
			if thaw, _ := p.ch[0].AbsoluteThawHeight(); p.typName == "lease" && thaw != leaseThaw {
				h.harnessError(herr("lease thaw height is %d, the plan assumes %d", thaw, leaseThaw))
				return
			}
			for i := range cases {
				if h.expired() {
					return
				}
				c := cases[i]
				v := safely("legacy", func() verdict { return runNeg(p, c, nil, h) })
				h.record(Replay{Part: "legacy", Src: &src, Neg: &c}, v)
				if v.sig == "" && i == len(cases)/2 {
					h.sample("legacy", map[string]any{"source": src.Name(), "case": c, "outcome": v.class})
				}
			}
		})
	}}
}

func negJobs(thorough bool) []job {
	var jobs []job
	// (2) a coarse grid on every type x opener x closer x offer order
	coarse := negPairs(false, 100, false)
	if thorough {
		coarse = negPairs(false, 25, false)
	}
	for _, typ := range chanmc.AllTypes {
		for _, ob := range []bool{false, true} {
			var cs []NegCase
			add := func(k int, c NegCase, closer int, early bool) {
				c.Closer, c.EarlyOffer = closer, early
				sc := scriptKinds[(k+closer)%3]
				c.SA, c.SB = sc, scriptKinds[(k+1)%3]
				cs = append(cs, c)
			}
			tap := chanmc.ChanTypes[typ].IsTaproot()
			for closer := 0; closer < 3; closer++ {
				for _, early := range []bool{false, true} {
					for k, c := range coarse {
						if tap && k%5 != 0 {
							continue // taproot: the responder accepts the first offer, pairs hardly matter
						}
						if closer == 2 && !thorough && !tap && k%2 != 0 {
							continue // both send shutdown at once: every second pair in quick
						}
						add(k, c, closer, early)
					}
				}
			}
			// upfront shutdown scripts on both sides; a frozen (lease) channel exactly at
			// its thaw height
			for k, c := range coarse {
				if !thorough && k%3 != 0 {
					continue
				}
				cu := c
				cu.Upfront = true
				add(k, cu, k%3, k%2 == 0)
				if typ == "lease" {
					ch := c
					ch.Height = leaseThaw
					add(k, ch, k%2, k%4 < 2)
					ch.Closer = 0
				}
			}
			jobs = append(jobs, negJob(negSource(typ, ob), cs, fmt.Sprintf("legacy %s/openerB=%v grid", typ, ob)))
		}
	}
	// (3) negotiation on low balances: one output absent or flipping with the fee,
	// with the harness estimator and with lnd's own SimpleCoopFeeEstimator
	types := quickDustTypes
	if thorough {
		types = chanmc.AllTypes
	}
	for _, typ := range types {
		for _, ob := range []bool{false, true} {
			for _, src := range negLowSources(typ, ob) {
				jobs = append(jobs, negJob(src, negLowCases(thorough), "legacy low "+src.Name()))
			}
		}
	}
	// (1) the full pair set on two base configurations
	base := []struct {
		typ     string
		openerB bool
		closer  int
		early   bool
		sa, sb  string
	}{
		{"tweakless", false, 0, false, "p2wkh", "p2wsh"},
		{"anchors", true, 0, true, "p2tr", "p2wkh"},
	}
	step := int64(7)
	const chunk = 1500
	if !thorough {
		base = base[:1]
	}
	for bi, b := range base {
		// thorough: every pair on the first configuration, the quick pair set
		// (grid step 7 + all pairs with |a-b| <= 3) on the second
		pairs := negPairs(thorough && bi == 0, step, true)
		for off := 0; off < len(pairs); off += chunk {
			end := off + chunk
			if end > len(pairs) {
				end = len(pairs)
			}
			cs := make([]NegCase, end-off)
			copy(cs, pairs[off:end])
			for i := range cs {
				cs[i].Closer, cs[i].EarlyOffer, cs[i].SA, cs[i].SB = b.closer, b.early, b.sa, b.sb
			}
			jobs = append(jobs, negJob(negSource(b.typ, b.openerB), cs, fmt.Sprintf("legacy %s pairs[%d:%d]", b.typ, off, end)))
		}
	}
	return jobs
}
