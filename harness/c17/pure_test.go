// pure_test.go: the value lattice on the two pure functions every close path goes
// through (lnwallet.CoopCloseBalance, lnwallet.CreateCooperativeCloseTx), called
// from both parties' perspectives and compared with each other and with the
// reference. This is where the balance x fee x dust x role lattice is swept
// exhaustively (threshold-1, threshold, threshold+1 on every axis).
package c17

import (
	"bytes"
	"fmt"

	"github.com/btcsuite/btcd/btcutil/v2"
	"github.com/btcsuite/btcd/chainhash/v2"
	"github.com/btcsuite/btcd/wire/v2"
	"github.com/lightningnetwork/lnd/chanstate"
	"github.com/lightningnetwork/lnd/fn/v2"
	"github.com/lightningnetwork/lnd/lntypes"
	"github.com/lightningnetwork/lnd/lnwallet"
	"github.com/lightningnetwork/lnd/verifmc/chanmc"
)

// PureCase is one lattice point. Party 0 is "local" in the first evaluation and
// "remote" in the mirrored one.
type PureCase struct {
	Type      string   `json:"type"`
	Opener    int      `json:"opener"`
	Stored    [2]int64 `json:"stored_sat"` // commitment balances in satoshi
	CommitFee int64    `json:"commit_fee"`
	Fee       int64    `json:"fee"`
	Payer     int      `json:"payer"` // -1 default
	Dust      [2]int64 `json:"dust"`
	Mode      string   `json:"mode"` // plain | rbf (WithRBFCloseTx) | seq (custom sequence+locktime)
	SA        string   `json:"script_a"`
	SB        string   `json:"script_b"`
}

var pureOutpoint = wire.OutPoint{Hash: chainhash.Hash{0xc1, 0x7}, Index: 2}

func runPure(c PureCase, tr tracer) verdict {
	ct := chanmc.ChanTypes[c.Type]
	credit := c.CommitFee
	if ct&chanstate.AnchorOutputsBit != 0 {
		credit += 2 * anchorSat
	}
	gross := c.Stored
	gross[c.Opener] += credit
	payer := c.Payer
	if payer < 0 {
		payer = c.Opener
	}
	scripts := [2][]byte{deliveryScript(c.SA, 0), deliveryScript(c.SB, 1)}
	ref := refClose(gross, c.Dust, c.Fee, payer, scripts)
	if c.Mode == "seq" {
		// custom sequence = the RBF flow: OP_RETURN delivery scripts burn
		ref = ref.withOpReturn(scripts)
	}
	v := verdict{}
	flow := "legacy"
	if c.Payer >= 0 {
		flow = "custom-payer"
	}
	v.cell = fmt.Sprintf("pure|%s|open%s|pay%s|%s|%s|%s|%s", c.Type, partyName(c.Opener), partyName(payer), flow, c.Mode, ref.shape()+ref.tie(), feeClass(c.Fee, gross[payer], c.Dust[payer]))
	fail := func(sig, f string, a ...any) verdict {
		v.sig = fmt.Sprintf("pure:%s:%s/%s", sig, c.Type, flow)
		v.what = fmt.Sprintf(f, a...) + fmt.Sprintf(" [case %+v gross=%v]", c, gross)
		v.class = "VIOLATION:" + sig
		return v
	}
	var (
		txs  [2]*wire.MsgTx
		errs [2]error
	)
	for me := 0; me < 2; me++ {
		po := fn.None[lntypes.ChannelParty]()
		if c.Payer >= 0 {
			po = fn.Some(party(me, c.Payer))
		}
		our, their, err := lnwallet.CoopCloseBalance(ct, me == c.Opener, btcutil.Amount(c.Fee),
			btcutil.Amount(c.Stored[me]), btcutil.Amount(c.Stored[1-me]), btcutil.Amount(c.CommitFee), po)
		if err != nil {
			errs[me] = err
			tr.log("%s: CoopCloseBalance -> %v", partyName(me), err)
			continue
		}
		tr.log("%s: CoopCloseBalance -> our=%d their=%d", partyName(me), our, their)
		if int64(our) != ref.net[me] || int64(their) != ref.net[1-me] {
			return fail("balance-mismatch", "%s computes final balances our=%d their=%d, reference %d/%d", partyName(me), our, their, ref.net[me], ref.net[1-me])
		}
		var opts []lnwallet.CloseTxOpt
		switch c.Mode {
		case "rbf":
			opts = append(opts, lnwallet.WithRBFCloseTx())
		case "seq":
			opts = append(opts, lnwallet.WithCustomTxInSequence(maxRBFSeq), lnwallet.WithCustomTxLockTime(650_000))
		}
		txs[me], err = lnwallet.CreateCooperativeCloseTx(*wire.NewTxIn(&pureOutpoint, nil, nil),
			btcutil.Amount(c.Dust[me]), btcutil.Amount(c.Dust[1-me]), our, their, scripts[me], scripts[1-me], opts...)
		if err != nil {
			return fail("tx-build-error", "%s: CreateCooperativeCloseTx: %v", partyName(me), err)
		}
	}
	if ref.reason == "cannot-afford" {
		for me := 0; me < 2; me++ {
			if errs[me] == nil {
				return fail("built-cannot-afford", "%s accepted a fee the payer cannot afford", partyName(me))
			}
		}
		v.class = "refused:cannot-afford"
		return v
	}
	for me := 0; me < 2; me++ {
		if errs[me] != nil {
			return fail("honest-refused", "%s refused a payable fee: %v", partyName(me), errs[me])
		}
	}
	if !bytes.Equal(txBytesNoWitness(txs[0]), txBytesNoWitness(txs[1])) {
		return fail("tx-not-identical", "perspectives differ: A=%x B=%x", txBytesNoWitness(txs[0]), txBytesNoWitness(txs[1]))
	}
	tx := txs[0]
	if len(tx.TxIn) != 1 || tx.TxIn[0].PreviousOutPoint != pureOutpoint {
		return fail("tx-wrong-input", "closing tx does not spend exactly the funding outpoint")
	}
	if got, want := outsKey(tx.TxOut), outsKey(ref.outs); got != want {
		return fail("tx-output-mismatch", "outputs [%s], reference [%s]", got, want)
	}
	var sum int64
	for _, o := range tx.TxOut {
		sum += o.Value
	}
	if sum+c.Fee+ref.trim != gross[0]+gross[1] {
		return fail("tx-value-not-conserved", "outputs %d + fee %d + trimmed %d != owned %d", sum, c.Fee, ref.trim, gross[0]+gross[1])
	}
	wantSeq, wantLock := finalSeq, uint32(0)
	switch c.Mode {
	case "rbf":
		wantSeq = maxRBFSeq
	case "seq":
		wantSeq, wantLock = maxRBFSeq, 650_000
	}
	if tx.TxIn[0].Sequence != wantSeq || tx.LockTime != wantLock {
		return fail("tx-sequence", "sequence %#x locktime %d, requested %#x/%d", tx.TxIn[0].Sequence, tx.LockTime, wantSeq, wantLock)
	}
	if ref.ok {
		v.class = "built:" + ref.shape()
	} else {
		// both below dust: the pure builder returns an output-less tx (the channel
		// API rejects it later through CheckTransactionSanity; covered by the api part)
		v.class = "built:no-outputs"
	}
	return v
}

// pureOpRet: script pairs with an OP_RETURN on one side or both (rotated over the lattice).
var pureOpRet = [][2]string{{"opret", "p2wkh"}, {"p2tr", "opret"}, {"opret", "opret1"}, {"opret1", "p2wsh"}}

// pureLattice enumerates the lattice; emit returns false to stop.
func pureLattice(thorough bool, emit func(PureCase) bool) {
	types := chanmc.AllTypes
	dusts := [][2]int64{{200, 1300}, {1300, 200}, {354, 354}}
	commitFees := []int64{0, 183, 4344}
	modes := []string{"plain", "rbf", "seq"}
	scripts := [][2]string{{"p2wkh", "p2wsh"}, {"p2tr", "p2wkh"}, {"p2wsh", "p2tr"}}
	if !thorough {
		types = []string{"legacy", "tweakless", "anchors", "lease", "taproot"}
		commitFees = []int64{183, 4344}
		scripts = scripts[:2]
	}
	for _, typ := range types {
		for opener := 0; opener < 2; opener++ {
			for _, d := range dusts {
				for _, cf := range commitFees {
					// stored balances: both axes on every dust threshold +-1 (before and
					// after the opener credit), zero, one, and a comfortable value.
					credit := cf
					if chanmc.ChanTypes[typ]&chanstate.AnchorOutputsBit != 0 {
						credit += 2 * anchorSat
					}
					axis := func(i int) []int64 {
						s := map[int64]bool{0: true, 1: true, 100_000: true}
						if thorough || d == dusts[0] {
							// a wumbo balance above 2^31 sat (no 32-bit arithmetic anywhere)
							s[1<<31+7] = true
						}
						for _, dd := range []int64{d[0], d[1]} {
							for _, k := range []int64{-1, 0, 1} {
								s[dd+k] = true
								if i == opener && dd+k-credit >= 0 {
									s[dd+k-credit] = true
								}
							}
						}
						return sortedKeys(s)
					}
					for _, a := range axis(0) {
						for _, b := range axis(1) {
							st := [2]int64{a, b}
							gross := st
							gross[opener] += credit
							for payer := -1; payer < 2; payer++ {
								pp := payer
								if pp < 0 {
									pp = opener
								}
								fs := map[int64]bool{0: true, 1: true, 253: true}
								for _, k := range []int64{-1, 0, 1} {
									fs[gross[pp]+k] = true
									fs[gross[pp]-d[pp]+k] = true
								}
								fs[gross[pp]+100_000] = true
								// the fee that leaves both parties the same amount (BIP69 tie: the
								// order of the two outputs is decided by the script bytes)
								tie := gross[pp] - gross[1-pp]
								fs[tie] = true
								for _, fee := range sortedKeys(fs) {
									if fee < 0 {
										continue
									}
									for mi, mode := range modes {
										sc := scripts[(mi+int(fee))%len(scripts)]
										if !emit(PureCase{Type: typ, Opener: opener, Stored: st, CommitFee: cf, Fee: fee, Payer: payer, Dust: d, Mode: mode, SA: sc[0], SB: sc[1]}) {
											return
										}
										if fee == tie {
											// every script pair (A's script sorts before B's and after it)
											for _, sc2 := range scripts {
												if sc2 != sc && !emit(PureCase{Type: typ, Opener: opener, Stored: st, CommitFee: cf, Fee: fee, Payer: payer, Dust: d, Mode: mode, SA: sc2[0], SB: sc2[1]}) {
													return
												}
											}
										}
										if mode == "seq" && (thorough || (cf == commitFees[0] && d != dusts[2])) {
											// simple close: OP_RETURN delivery script of A, of B, of both
											op := pureOpRet[(int(fee%7)+int(st[0]%5)+int(st[1]%3))%len(pureOpRet)]
											if !emit(PureCase{Type: typ, Opener: opener, Stored: st, CommitFee: cf, Fee: fee, Payer: payer, Dust: d, Mode: mode, SA: op[0], SB: op[1]}) {
												return
											}
										}
									}
								}
							}
						}
					}
				}
			}
		}
	}
}
