// plan_test.go: what is enumerated per tier.
package c17

import (
	"fmt"
	"sort"
	"strings"

	"github.com/lightningnetwork/lnd/lnwallet"
	"github.com/lightningnetwork/lnd/lnwallet/chainfee"
	"github.com/lightningnetwork/lnd/verifmc/chanmc"
)

const lowCap = int64(1_000_000)

// bigSources: the default 10 BTC fixture in clean states reached through HTLC
// traffic (msat remainders on both sides, a fee update that changes the dangling
// commit fee, a lopsided split, a failed HTLC).
func bigSources(typ string, openerB bool, thorough bool) []Source {
	mk := func(script []chanmc.Intent, fees []int64) Source {
		return Source{P: chanmc.Params{Type: typ, OpenerB: openerB, Script: script, Fees: fees}}
	}
	s := []Source{
		mk([]chanmc.Intent{{By: 0, Amt: 50_000_123, Fate: "settle"}, {By: 1, Amt: 60_000_001, Fate: "settle"}}, nil),
		mk([]chanmc.Intent{{By: 0, Amt: 480_000_000_999, Fate: "settle"}, {By: 1, Amt: 70_000_000, Fate: "fail"}}, []int64{9000}),
	}
	if thorough {
		s = append(s,
			mk(nil, nil),
			mk([]chanmc.Intent{{By: 1, Amt: 485_000_000_001, Fate: "settle"}, {By: 0, Amt: 1_500, Fate: "settle"}}, []int64{253}),
		)
	}
	return s
}

func credit(typ string, feePerKw int64) int64 {
	ct := chanmc.ChanTypes[typ]
	c := int64(chainfee.SatPerKWeight(feePerKw).FeeForWeight(lnwallet.CommitWeight(ct)))
	if ct.HasAnchors() {
		c += 2 * anchorSat
	}
	return c
}

// lowSources: 1 000 000 sat channels whose initial split puts party X's gross
// share on {0, 1, dust-1, dust, dust+1, 2*dust, 5000} (where feasible: an opener
// always owns at least commit fee + anchors), with and without a sub-satoshi
// remainder (a 999 msat HTLC settled towards X).
func lowSources(typ string, openerB bool, thorough bool) []Source {
	var out []Source
	dusts := [][2]int64{{200, 1300}}
	rates := []int64{253, 6000}
	if thorough {
		dusts = append(dusts, [2]int64{1300, 200})
	}
	opener := 0
	if openerB {
		opener = 1
	}
	seen := map[string]bool{}
	for _, d := range dusts {
		for _, kw := range rates {
			cr := credit(typ, kw)
			for x := 0; x < 2; x++ {
				min := int64(0)
				if x == opener {
					min = cr
				}
				targets := map[int64]bool{0: true, 1: true, d[x] - 1: true, d[x]: true, d[x] + 1: true, 2 * d[x]: true, 5000: true,
					min: true, min + 1: true}
				for _, g := range sortedKeys(targets) {
					if g < min {
						continue
					}
					grossA := g
					if x == 1 {
						grossA = lowCap - g
					}
					if grossA <= 0 || grossA > lowCap {
						continue // GrossA == 0 means "default" in chanmc; A=0 is covered by the mirrored B=0
					}
					for _, rem := range []bool{false, true} {
						if rem && !thorough && g != d[x] && g != d[x]-1 && g != 0 {
							continue
						}
						p := chanmc.Params{Type: typ, OpenerB: openerB, CapacitySat: lowCap, GrossA: grossA, ReserveSat: 1,
							DustA: d[0], DustB: d[1], FeePerKw: kw}
						if rem {
							p.Script = []chanmc.Intent{{By: 1 - x, Amt: 999, Fate: "settle"}}
						}
						src := Source{P: p}
						if !seen[src.Name()] {
							seen[src.Name()] = true
							out = append(out, src)
						}
					}
				}
			}
		}
	}
	return out
}

// scriptDustSources: 1 000 000 sat channels in which party X's *settled* balance
// (the stored commitment balance the RBF state machine prices against the script
// dust limits) sits on every target; an opener's gross share is the target plus
// commit fee and anchors.
func scriptDustSources(typ string, openerB bool, targets []int64, chanDust [2]int64) []Source {
	var out []Source
	opener := 0
	if openerB {
		opener = 1
	}
	const kw = 253
	cr := credit(typ, kw)
	for x := 0; x < 2; x++ {
		for _, r := range targets {
			g := r
			if x == opener {
				g += cr
			}
			grossA := g
			if x == 1 {
				grossA = lowCap - g
			}
			if grossA <= 0 || grossA > lowCap {
				continue
			}
			out = append(out, Source{P: chanmc.Params{Type: typ, OpenerB: openerB, CapacitySat: lowCap, GrossA: grossA, ReserveSat: 1,
				DustA: chanDust[0], DustB: chanDust[1], FeePerKw: kw}})
		}
	}
	return out
}

var quickDustTypes = []string{"tweakless", "anchors", "taprootfinal"}

// apiDustJobs: the api part on the script-dust sources, crossed with every
// ordered pair of delivery scripts with different dust limits (all pairs in thorough).
func apiDustJobs(thorough bool) []job {
	var jobs []job
	types := quickDustTypes
	pairs := scriptPairs([]string{"p2wkh", "p2wsh", "p2tr", "p2sh", "p2pkh"}, true)
	if thorough {
		types = chanmc.AllTypes
		pairs = scriptPairs(allScriptKinds, false)
	}
	for _, typ := range types {
		for _, ob := range []bool{false, true} {
			for si, src := range scriptDustSources(typ, ob, dustTargets(allScriptKinds), [2]int64{200, 1300}) {
				src, si := src, si
				jobs = append(jobs, job{name: "apidust " + src.Name(), part: "api", f: func(h *harness) {
					h.withPair(src, func(p *pair) {
						for payer := -1; payer < 2; payer++ {
							fees := []int64{253}
							if payer < 0 {
								fees = []int64{0, 253}
							}
							if thorough {
								fees = []int64{0, 253, 330}
							}
							for _, fee := range fees {
								for pi, sc := range pairs {
									// quick: every source takes a third of the pairs (the
									// channel API prices dust by the channel dust limits, not by
									// script; the full cross is in the rbf part and in thorough)
									if !thorough && pi%3 != si%3 {
										continue
									}
									if h.expired() {
										return
									}
									c := ApiCase{Fee: fee, Payer: payer, SA: sc[0], SB: sc[1]}
									v := safely("api", func() verdict { return runApi(p, c, nil) })
									h.record(Replay{Part: "api", Src: &src, Api: &c}, v)
								}
							}
						}
					})
				}})
			}
		}
	}
	return jobs
}

// apiOpRetJobs: simple close with an OP_RETURN delivery script (the owner burns its
// balance: output of value zero, present iff the balance reaches the owner's dust
// limit). lnd's shutdown validation refuses such scripts, so the state machines
// never see them; the channel API and the tx builder implement the rule. RBF
// options only (custom payer + custom sequence), each party's settled balance on
// {0, each channel dust limit -1/0/+1, 5000} x both payers x fees {0, 253, payer's
// remainder at its dust limit -1/0} x OP_RETURN on A's side, B's side, both.
func apiOpRetJobs(thorough bool) []job {
	var jobs []job
	types := quickDustTypes
	pairs := [][2]string{{"opret", "p2wkh"}, {"p2tr", "opret"}, {"opret", "opret1"}, {"opret1", "p2wsh"}}
	if thorough {
		types = chanmc.AllTypes
		pairs = append(pairs, [2]string{"opret", "opret"}, [2]string{"p2wkh", "opret1"})
	}
	targets := []int64{0, 199, 200, 201, 1299, 1300, 1301, 5000}
	for _, typ := range types {
		for _, ob := range []bool{false, true} {
			for _, src := range scriptDustSources(typ, ob, targets, [2]int64{200, 1300}) {
				src := src
				jobs = append(jobs, job{name: "apiopret " + src.Name(), part: "api", f: func(h *harness) {
					h.withPair(src, func(p *pair) {
						for payer := 0; payer < 2; payer++ {
							g, d := p.gross[payer], p.dust[payer]
							fs := map[int64]bool{0: true, 253: true, g - d - 1: true, g - d: true}
							for _, fee := range sortedKeys(fs) {
								if fee < 0 {
									continue
								}
								for _, sc := range pairs {
									if h.expired() {
										return
									}
									c := ApiCase{Fee: fee, Payer: payer, SA: sc[0], SB: sc[1]}
									v := safely("api", func() verdict { return runApi(p, c, nil) })
									h.record(Replay{Part: "api", Src: &src, Api: &c}, v)
								}
							}
						}
					})
				}})
			}
		}
	}
	return jobs
}

// apiFees: the fee lattice for one pair and payer.
func apiFees(p *pair, payer int) []int64 {
	g := p.gross[payer]
	s := map[int64]bool{0: true, 1: true, 253: true, 5000: true}
	for _, k := range []int64{-1, 0, 1} {
		s[p.dust[0]+k] = true
		s[p.dust[1]+k] = true
		s[g+k] = true               // payer balance -1 / exact / +1
		s[g-p.dust[payer]+k] = true // payer's remainder at its dust limit -1 / 0 / +1
	}
	s[g+100_000] = true // far above
	// both parties are left with the same amount (BIP69 tie, order by script bytes)
	s[g-p.gross[1-payer]] = true
	var out []int64
	for _, f := range sortedKeys(s) {
		if f >= 0 {
			out = append(out, f)
		}
	}
	return out
}

func apiJob(src Source, scripts [][2]string, locks []uint32) job {
	return job{name: "api " + src.Name(), part: "api", f: func(h *harness) {
		h.withPair(src, func(p *pair) {
			for payer := -1; payer < 2; payer++ {
				pp := payer
				if pp < 0 {
					pp = p.opener
				}
				lts := []uint32{0}
				if payer >= 0 {
					lts = locks
				}
				for _, fee := range apiFees(p, pp) {
					for _, sc := range scripts {
						for _, lt := range lts {
							if h.expired() {
								return
							}
							c := ApiCase{Fee: fee, Payer: payer, LockTime: lt, SA: sc[0], SB: sc[1]}
							rp := Replay{Part: "api", Src: &src, Api: &c}
							v := safely("api", func() verdict { return runApi(p, c, nil) })
							h.record(rp, v)
							if v.sig == "" {
								h.sample("api", map[string]any{"source": src.Name(), "case": c, "outcome": v.class})
							}
						}
					}
				}
			}
		})
	}}
}

func pureJobs(thorough bool) []job {
	// split the lattice by (type, opener) for parallelism
	var jobs []job
	for _, typ := range chanmc.AllTypes {
		for opener := 0; opener < 2; opener++ {
			typ, opener := typ, opener
			jobs = append(jobs, job{name: fmt.Sprintf("pure %s/%d", typ, opener), part: "pure", f: func(h *harness) {
				n := 0
				pureLattice(thorough, func(c PureCase) bool {
					if c.Type != typ || c.Opener != opener {
						return true
					}
					n++
					if n%512 == 0 && h.expired() {
						return false
					}
					v := safely("pure", func() verdict { return runPure(c, nil) })
					h.record(Replay{Part: "pure", Pure: &c}, v)
					if n%9973 == 1 && v.sig == "" {
						h.sample("pure", map[string]any{"case": c, "outcome": v.class})
					}
					return true
				})
			}})
		}
	}
	return jobs
}

func plan(thorough bool, parts string) []job {
	want := func(p string) bool { return parts == "" || strings.Contains(parts, p) }
	// One list per family; the lists are merged round-robin so that a deadline on a
	// loaded machine cuts the tail of every family instead of whole families (the
	// legacy part used to come last and did not run at all in a capped run).
	var fams [][]job
	fam := func(j []job) {
		if len(j) > 0 {
			fams = append(fams, j)
		}
	}
	allScripts := [][2]string{}
	for _, a := range scriptKinds {
		for _, b := range scriptKinds {
			allScripts = append(allScripts, [2]string{a, b})
		}
	}
	lowScripts := [][2]string{{"p2wkh", "p2wsh"}, {"p2tr", "p2wkh"}, {"p2wsh", "p2tr"}}
	if want("pure") {
		fam(pureJobs(thorough))
	}
	if want("rbf") {
		fam(rbfDustJobs(thorough))
		fam(rbfJobs(thorough))
	}
	if want("api") {
		var big, low []job
		for _, typ := range chanmc.AllTypes {
			for _, ob := range []bool{false, true} {
				for _, src := range bigSources(typ, ob, thorough) {
					sc := allScripts
					if !thorough {
						sc = [][2]string{{"p2wkh", "p2wsh"}, {"p2tr", "p2wkh"}, {"p2wsh", "p2tr"}, {"p2tr", "p2tr"}}
					}
					big = append(big, apiJob(src, sc, []uint32{0, 650_000}))
				}
				for k, src := range lowSources(typ, ob, thorough) {
					sc := [][2]string{lowScripts[k%3]}
					if thorough {
						sc = append(sc, lowScripts[(k+1)%3])
					}
					low = append(low, apiJob(src, sc, []uint32{0}))
				}
			}
		}
		fam(big)
		fam(low)
		fam(apiDustJobs(thorough))
		fam(apiOpRetJobs(thorough))
	}
	if want("legacy") {
		fam(negJobs(thorough))
	}
	// proportional merge: family f contributes its k-th job at position k/len(f)
	type slot struct {
		pos float64
		f   int
		j   job
	}
	var slots []slot
	for fi, f := range fams {
		for k, j := range f {
			pos := float64(k) / float64(len(f))
			if j.part == "pure" {
				pos /= 2 // few long jobs: all started within the first half of the list
			}
			slots = append(slots, slot{pos: pos, f: fi, j: j})
		}
	}
	sort.SliceStable(slots, func(a, b int) bool {
		if slots[a].pos != slots[b].pos {
			return slots[a].pos < slots[b].pos
		}
		return slots[a].f < slots[b].f
	})
	var jobs []job
	for _, s := range slots {
		jobs = append(jobs, s.j)
	}
	return jobs
}
