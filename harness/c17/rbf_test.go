// rbf_test.go: the RBF cooperative close flow. Each party's rbf_coop state
// machine (the exported state types of lnwallet/chancloser) is driven event by
// event through its ProcessEvent method by a synchronous re-implementation of
// protofsm's applyEvents loop: internal events are queued and processed in order,
// SendMsgEvents go to the harness wire (encoded and decoded with lnwire), post-send
// events are queued, BroadcastTxn events are recorded. Wire messages are mapped to
// events with the real chancloser.RbfMsgMapper. The Environment is wired like
// peer.initRbfChanCloser does (CloseSigner = the real channel, musig sessions =
// peer.MusigChanCloser, observer backed by the real channel, BlockHeight zero).
package c17

import (
	"bytes"
	"encoding/json"
	"errors"
	"fmt"

	"github.com/btcsuite/btcd/btcutil/v2"
	"github.com/btcsuite/btcd/chaincfg/v2"
	"github.com/btcsuite/btcd/wire/v2"
	"github.com/lightningnetwork/lnd/channeldb"
	"github.com/lightningnetwork/lnd/fn/v2"
	"github.com/lightningnetwork/lnd/lntypes"
	"github.com/lightningnetwork/lnd/lnwallet"
	"github.com/lightningnetwork/lnd/lnwallet/chainfee"
	"github.com/lightningnetwork/lnd/lnwallet/chancloser"
	"github.com/lightningnetwork/lnd/lnwire"
	"github.com/lightningnetwork/lnd/msgmux"
	"github.com/lightningnetwork/lnd/peer"
	"github.com/lightningnetwork/lnd/protofsm"
	"github.com/lightningnetwork/lnd/verifmc/chanmc"
)

// RbfStep is one later fee bump: party By asks its machine for a new offer.
type RbfStep struct {
	By  int   `json:"by"`
	Fee int64 `json:"fee"`
	// Cross: this bump and the next one (by the other party) are both issued
	// before either closing_complete is delivered (two offers in flight in a
	// later round, not only in the first one).
	Cross bool `json:"cross,omitempty"`
}

// RbfRestart: both peers restart (reconnect) after the rounds so far: fresh state
// machines, environments, musig sessions and message mappers on freshly loaded
// channel objects; there is no link any more, so the observer reports final
// balances from the start and nobody but the machine itself produces the
// ChannelFlushed event (peer.chanObserver.FinalBalances, "restart case").
type RbfRestart struct {
	Initiator  int       `json:"initiator"`
	InitFee    int64     `json:"init_fee"`
	FirstOffer int       `json:"first_offer"`
	Bumps      []RbfStep `json:"bumps"`
}

// RbfCase is one RBF close history.
type RbfCase struct {
	// Initiator: who sends shutdown first, with InitFee as its ideal fee; 2 = both
	// send shutdown at the same time (A's ideal fee is InitFee, B's DefaultFee[1]).
	Initiator int   `json:"initiator"`
	InitFee   int64 `json:"init_fee"`
	// DefaultFee is each side's Environment.DefaultFeeRate (as absolute fee): the
	// responder's first offer uses it.
	DefaultFee [2]int64 `json:"default_fee"`
	// FirstOffer: whose first-round closing_complete is delivered first (both
	// sides make an offer right after the flush).
	FirstOffer int       `json:"first_offer"`
	Bumps      []RbfStep `json:"bumps"`
	SA         string    `json:"script_a"`
	SB         string    `json:"script_b"`
	// Early: the first closing_complete reaches its receiver before that side has
	// been flushed. If the receiver initiated the shutdown it waits in
	// ChannelFlushing (the link's flush event is held back); if it is the
	// shutdown responder it still waits in ShutdownPending (the post-send
	// ShutdownComplete event is held back). Both windows stash the offer.
	Early bool `json:"early,omitempty"`
	// Upfront: both channels carry upfront shutdown scripts (equal to the case's
	// delivery scripts); the initiator passes no explicit delivery address and
	// NewDeliveryScript would hand out a different, fresh script.
	Upfront bool `json:"upfront,omitempty"`
	// MapperHeight is the chain height the message mapper stamps on a received
	// shutdown (0 = negHeight). Compared with the channel's thaw height.
	MapperHeight uint32      `json:"mapper_height,omitempty"`
	Restart      *RbfRestart `json:"restart,omitempty"`
	// EnvBlockHeight sets Environment.BlockHeight. lnd's peer never sets it
	// (zero); non-zero values are not enumerated, only reachable through a
	// hand-written replay file (probe of a latent inconsistency, see report).
	EnvBlockHeight uint32 `json:"env_block_height,omitempty"`
}

// rbfEstimator: absolute fee = sat/vbyte value of the requested rate.
type rbfEstimator struct{}

func (rbfEstimator) EstimateFee(_ channeldb.ChannelType, _, _ *wire.TxOut, rate chainfee.SatPerKWeight) btcutil.Amount {
	return btcutil.Amount(rate.FeePerVByte())
}

// rbfObserver is the chancloser.ChanStateObserver backed by the real channel; the
// two flags stand for the link's add-disabling (peer.chanObserver + channelLink).
// noLink is the restart case of peer.chanObserver: without a link the balances
// are final from the start.
type rbfObserver struct {
	ch                       *lnwallet.LightningChannel
	inDisabled, outDisabled  bool
	noLink                   bool
	shutdownMarked, coopMark int
}

func (o *rbfObserver) NoDanglingUpdates() bool    { return !o.ch.OweCommitment() }
func (o *rbfObserver) DisableIncomingAdds() error { o.inDisabled = true; return nil }
func (o *rbfObserver) DisableOutgoingAdds() error { o.outDisabled = true; return nil }
func (o *rbfObserver) DisableChannel() error      { return nil }
func (o *rbfObserver) MarkCoopBroadcasted(tx *wire.MsgTx, local bool) error {
	o.coopMark++
	who := lntypes.Remote
	if local {
		who = lntypes.Local
	}
	return o.ch.MarkCoopBroadcasted(tx, who)
}
func (o *rbfObserver) MarkShutdownSent(addr []byte, isInitiator bool) error {
	o.shutdownMarked++
	return o.ch.MarkShutdownSent(channeldb.NewShutdownInfo(addr, isInitiator))
}
func (o *rbfObserver) FinalBalances() fn.Option[chancloser.ShutdownBalances] {
	if (o.noLink || (o.inDisabled && o.outDisabled)) && o.ch.IsChannelClean() {
		s := o.ch.StateSnapshot()
		return fn.Some(chancloser.ShutdownBalances{LocalBalance: s.LocalBalance, RemoteBalance: s.RemoteBalance})
	}
	return fn.None[chancloser.ShutdownBalances]()
}

type rbfSide struct {
	idx     int
	state   chancloser.RbfState
	env     *chancloser.Environment
	obs     *rbfObserver
	mapper  *chancloser.RbfMsgMapper
	outbox  []lnwire.Message
	bcast   []*wire.MsgTx
	flushed bool
	tr      tracer
	// holdFlush: the link has not reported the flush yet (the harness does not
	// hand in ChannelFlushed until flush() is called).
	holdFlush bool
	// holdPost: post-send events are not processed yet (stashed until releasePost()).
	holdPost bool
	heldPost []chancloser.ProtocolEvent
}

// apply mirrors protofsm.StateMachine.applyEvents, synchronously.
func (s *rbfSide) apply(ev chancloser.ProtocolEvent) error {
	queue := []chancloser.ProtocolEvent{ev}
	for len(queue) > 0 {
		e := queue[0]
		queue = queue[1:]
		tr, err := s.state.ProcessEvent(e, s.env)
		if err != nil {
			s.tr.log("%s: %T in %v -> error: %v", partyName(s.idx), e, s.state, err)
			return err
		}
		var herrOut error
		tr.NewEvents.WhenSome(func(em protofsm.EmittedEvent[chancloser.ProtocolEvent]) {
			for _, d := range em.ExternalEvents {
				switch de := d.(type) {
				case *protofsm.SendMsgEvent[chancloser.ProtocolEvent]:
					ok := true
					de.SendWhen.WhenSome(func(pred protofsm.SendPredicate) { ok = pred() })
					if !ok {
						herrOut = herr("send predicate false on a clean channel")
						return
					}
					s.outbox = append(s.outbox, de.Msgs...)
					de.PostSendEvent.WhenSome(func(pe chancloser.ProtocolEvent) {
						if s.holdPost {
							s.heldPost = append(s.heldPost, pe)
							return
						}
						queue = append(queue, pe)
					})
				case *protofsm.BroadcastTxn:
					s.bcast = append(s.bcast, de.Tx)
				}
			}
			queue = append(queue, em.InternalEvent...)
		})
		if herrOut != nil {
			return herrOut
		}
		s.tr.log("%s: %T: %v -> %v", partyName(s.idx), e, s.state, tr.NextState)
		s.state = tr.NextState
		// The peer sends ChannelFlushed once the machine waits in ChannelFlushing
		// and the link reports the channel flushed (it is clean here). Without a
		// link (restart) nobody does.
		if _, ok := s.state.(*chancloser.ChannelFlushing); ok && !s.flushed && !s.holdFlush && !s.obs.noLink {
			s.flushed = true
			queue = append(queue, s.flushEvent())
		}
	}
	return nil
}

func (s *rbfSide) flushEvent() chancloser.ProtocolEvent {
	snap := s.obs.ch.StateSnapshot()
	return &chancloser.ChannelFlushed{ShutdownBalances: chancloser.ShutdownBalances{
		LocalBalance: snap.LocalBalance, RemoteBalance: snap.RemoteBalance}}
}

// flush: the link reports the flush now.
func (s *rbfSide) flush() error {
	s.holdFlush = false
	if _, ok := s.state.(*chancloser.ChannelFlushing); ok && !s.flushed {
		s.flushed = true
		return s.apply(s.flushEvent())
	}
	return nil
}

// releasePost processes the stashed post-send events.
func (s *rbfSide) releasePost() error {
	s.holdPost = false
	held := s.heldPost
	s.heldPost = nil
	for _, pe := range held {
		if err := s.apply(pe); err != nil {
			return err
		}
	}
	return nil
}

func wireRoundTrip(m lnwire.Message) (lnwire.Message, error) {
	var b bytes.Buffer
	if _, err := lnwire.WriteMessage(&b, m, 0); err != nil {
		return nil, err
	}
	return lnwire.ReadMessage(&b, 0)
}

// rbfRun is the state of one RBF history.
type rbfRun struct {
	p       *pair
	c       RbfCase
	tr      tracer
	scripts [2][]byte
	raw     [2]int64
	sides   [2]*rbfSide
	rounds  int
	classes []string
	fail    func(sig, f string, a ...any) verdict
}

func isHarnessErr(err error) bool {
	var he *harnessErr
	return errors.As(err, &he)
}

// newSides builds both state machines the way peer.initRbfChanCloser does.
func (r *rbfRun) newSides(restarted bool) {
	p, c := r.p, r.c
	height := uint32(negHeight)
	if c.MapperHeight != 0 {
		height = c.MapperHeight
	}
	for i := 0; i < 2; i++ {
		i := i
		ch := p.ch[i]
		peerPub := *p.ch[i].State().IdentityPub // the remote node's identity in this fixture
		chanID := lnwire.NewChanIDFromOutPoint(ch.ChannelPoint())
		obs := &rbfObserver{ch: ch, noLink: restarted}
		thaw, _ := ch.AbsoluteThawHeight()
		env := &chancloser.Environment{
			ChainParams:    chaincfg.RegressionNetParams,
			ChanPeer:       peerPub,
			ChanPoint:      ch.ChannelPoint(),
			ChanID:         chanID,
			Scid:           ch.ShortChanID(),
			ChanType:       ch.ChanType(),
			BlockHeight:    c.EnvBlockHeight,
			DefaultFeeRate: chainfee.SatPerVByte(c.DefaultFee[i]),
			ThawHeight:     fn.Some(thaw),
			NewDeliveryScript: func() (lnwire.DeliveryAddress, error) {
				if c.Upfront {
					// a fresh wallet script, different from the upfront one
					return deliveryScript([2]string{c.SA, c.SB}[i], i+2), nil
				}
				return r.scripts[i], nil
			},
			FeeEstimator: rbfEstimator{},
			CloseSigner:  ch,
			ChanObserver: obs,
		}
		if c.Upfront {
			// peer.ChooseAddr(channel.{Remote,Local}UpfrontShutdownScript())
			env.RemoteUpfrontShutdown = fn.Some(lnwire.DeliveryAddress(r.scripts[1-i]))
			env.LocalUpfrontShutdown = fn.Some(lnwire.DeliveryAddress(r.scripts[i]))
		}
		if p.ct.IsTaproot() {
			env.LocalMusigSession = peer.NewMusigChanCloser(ch)
			env.RemoteMusigSession = peer.NewMusigChanCloser(ch)
		}
		r.sides[i] = &rbfSide{idx: i, state: &chancloser.ChannelActive{}, env: env, obs: obs, tr: r.tr,
			mapper: chancloser.NewRbfMsgMapper(func() uint32 { return height }, chanID, peerPub)}
	}
}

// deliverMsg hands one wire message to party `to`.
func (r *rbfRun) deliverMsg(to int, m lnwire.Message) error {
	d := r.sides[to]
	mm, err := wireRoundTrip(m)
	if err != nil {
		return herr("wire round trip of %T: %v", m, err)
	}
	ev := d.mapper.MapMsg(msgmux.PeerMsg{Message: mm, PeerPub: d.env.ChanPeer})
	if ev.IsNone() {
		return herr("message %T not mapped to an event", m)
	}
	return d.apply(ev.UnsafeFromSome())
}

// deliver moves the oldest message of from's outbox to the other side.
func (r *rbfRun) deliver(from int) (lnwire.Message, error) {
	s := r.sides[from]
	m := s.outbox[0]
	s.outbox = s.outbox[1:]
	return m, r.deliverMsg(1-from, m)
}

// offer is a closing_complete taken off its sender's outbox.
type rbfOffer struct {
	cc  *lnwire.ClosingComplete
	ref refResult
}

// takeOffer pops closer's pending closing_complete (if any) and checks it
// against what was asked for. A nil offer with a class means "no offer, and
// rightly so".
func (r *rbfRun) takeOffer(closer int, fee int64) (*rbfOffer, string, *verdict) {
	p := r.p
	cs := r.sides[closer]
	ref := refClose(p.gross, p.dust, fee, closer, r.scripts)
	if len(cs.outbox) == 0 {
		// no offer was made
		if r.raw[closer] >= fee {
			fv := r.fail("honest-offer-missing", "%s can pay fee %d from its balance %d but made no offer (state %v)", partyName(closer), fee, r.raw[closer], cs.state)
			return nil, "", &fv
		}
		if ref.reason == "cannot-afford" {
			return nil, "no-offer:cannot-afford", nil
		}
		return nil, "no-offer:conservative", nil // fee above the stored balance but within balance+commit fee
	}
	cc, ok := cs.outbox[0].(*lnwire.ClosingComplete)
	if !ok {
		fv := r.fail("unexpected-message", "%s sent %T instead of closing_complete", partyName(closer), cs.outbox[0])
		return nil, "", &fv
	}
	cs.outbox = cs.outbox[1:]
	if int64(cc.FeeSatoshis) != fee || !bytes.Equal(cc.CloserScript, r.scripts[closer]) || !bytes.Equal(cc.CloseeScript, r.scripts[1-closer]) {
		fv := r.fail("offer-mismatch", "closing_complete fee=%d scripts %x/%x, asked fee %d", cc.FeeSatoshis, cc.CloserScript, cc.CloseeScript, fee)
		return nil, "", &fv
	}
	if !ref.ok {
		fv := r.fail("offered-"+ref.reason, "%s offered fee %d which the reference refuses (%s)", partyName(closer), fee, ref.reason)
		return nil, "", &fv
	}
	return &rbfOffer{cc: cc, ref: ref}, "", nil
}

func (r *rbfRun) rejected(closer int, fee int64, err error) *verdict {
	if isHarnessErr(err) {
		fv := r.fail("harness", "%v", err)
		fv.sig = ""
		return &fv
	}
	fv := r.fail("honest-offer-rejected", "%s rejected %s's closing_complete(fee=%d): %v", partyName(1-closer), partyName(closer), fee, err)
	return &fv
}

// finishRound: the closee has processed the offer (nb = its number of broadcasts
// before); carry the closing_sig back and judge the two transactions.
func (r *rbfRun) finishRound(closer int, fee int64, of *rbfOffer, nb int) (string, *verdict) {
	p := r.p
	cs, ce := r.sides[closer], r.sides[1-closer]
	if len(ce.bcast) != nb+1 || len(ce.outbox) == 0 {
		fv := r.fail("closee-no-tx", "%s accepted the offer without broadcasting/answering (broadcasts %d, outbox %d, state %v)", partyName(1-closer), len(ce.bcast)-nb, len(ce.outbox), ce.state)
		return "", &fv
	}
	nb2 := len(cs.bcast)
	// the closing_sig is the newest ClosingSig in the closee's outbox; other
	// entries may be its own pending offer
	k := -1
	for j, m := range ce.outbox {
		if _, ok := m.(*lnwire.ClosingSig); ok {
			k = j
		}
	}
	if k < 0 {
		fv := r.fail("closee-no-sig", "%s did not send closing_sig", partyName(1-closer))
		return "", &fv
	}
	sigMsg := ce.outbox[k]
	ce.outbox = append(ce.outbox[:k:k], ce.outbox[k+1:]...)
	if err := r.deliverMsg(closer, sigMsg); err != nil {
		fv := r.fail("honest-sig-rejected", "%s rejected %s's closing_sig(fee=%d): %v", partyName(closer), partyName(1-closer), fee, err)
		return "", &fv
	}
	if len(cs.bcast) != nb2+1 {
		fv := r.fail("closer-no-tx", "%s did not broadcast after closing_sig", partyName(closer))
		return "", &fv
	}
	t1, t2 := ce.bcast[len(ce.bcast)-1], cs.bcast[len(cs.bcast)-1]
	if !bytes.Equal(txBytesNoWitness(t1), txBytesNoWitness(t2)) {
		fv := r.fail("tx-not-identical", "closer %s and closee built different transactions for fee %d: closee=%x closer=%x", partyName(closer), fee, txBytesNoWitness(t1), txBytesNoWitness(t2))
		return "", &fv
	}
	seq, lock := maxRBFSeq, of.cc.LockTime
	if sig, what := p.checkTxAgainstRef(t1, of.ref, fee, &seq, &lock); sig != "" {
		fv := r.fail(sig, "closer %s fee %d: %s", partyName(closer), fee, what)
		return "", &fv
	}
	for k, t := range []*wire.MsgTx{t1, t2} {
		if k == 1 && bytes.Equal(txBytesFull(t1), txBytesFull(t2)) {
			continue
		}
		if err := p.engineVerdict(t); err != nil {
			fv := r.fail("script-invalid", "RBF closing tx (closer %s, fee %d) fails the script interpreter: %v", partyName(closer), fee, err)
			return "", &fv
		}
	}
	r.rounds++
	r.tr.log("round ok: closer %s fee %d outputs %s", partyName(closer), fee, outsKey(t1.TxOut))
	return "closed:" + of.ref.shape(), nil
}

// judgeRound carries closer's pending closing_complete (if any) to the closee
// and the closing_sig back, and judges the two transactions.
func (r *rbfRun) judgeRound(closer int, fee int64) (string, *verdict) {
	of, cl, fv := r.takeOffer(closer, fee)
	if fv != nil || of == nil {
		return cl, fv
	}
	nb := len(r.sides[1-closer].bcast)
	if err := r.deliverMsg(1-closer, of.cc); err != nil {
		return "", r.rejected(closer, fee, err)
	}
	return r.finishRound(closer, fee, of, nb)
}

// phase: shutdown exchange, first offers, bumps. Returns a verdict to stop with.
func (r *rbfRun) phase(ini int, initFee int64, first int, early bool, bumps []RbfStep) *verdict {
	c, sides := r.c, r.sides
	ret := func(fv verdict) *verdict { return &fv }
	stop := func(fv *verdict) *verdict {
		if fv.sig == "" {
			return &verdict{class: "harness-error", what: fv.what}
		}
		return fv
	}
	// ideal fee each side states when it sends shutdown on its own initiative
	firstFee := [2]int64{c.DefaultFee[0], c.DefaultFee[1]}
	sendShutdown := func(i int, fee int64) *verdict {
		addr := fn.Some(lnwire.DeliveryAddress(r.scripts[i]))
		if c.Upfront {
			addr = fn.None[lnwire.DeliveryAddress]()
		}
		if err := sides[i].apply(&chancloser.SendShutdown{DeliveryAddr: addr, IdealFeeRate: chainfee.SatPerVByte(fee)}); err != nil {
			return ret(r.fail("shutdown-error", "%s: SendShutdown: %v", partyName(i), err))
		}
		if len(sides[i].outbox) != 1 {
			return ret(r.fail("shutdown-error", "%s did not send shutdown", partyName(i)))
		}
		firstFee[i] = fee
		return nil
	}
	S, R := first, 1-first
	if early {
		if ini == R || ini == 2 {
			sides[R].holdFlush = true // R will wait in ChannelFlushing
		} else {
			sides[R].holdPost = true // R (shutdown responder) will wait in ShutdownPending
		}
	}
	// --- shutdown exchange
	switch ini {
	case 2:
		if fv := sendShutdown(0, initFee); fv != nil {
			return fv
		}
		if fv := sendShutdown(1, c.DefaultFee[1]); fv != nil {
			return fv
		}
		// S learns R's shutdown first (so that with `early` S is flushed first)
		for _, from := range []int{R, S} {
			if _, err := r.deliver(from); err != nil {
				return ret(r.fail("shutdown-error", "%s: shutdown received: %v", partyName(1-from), err))
			}
		}
	default:
		if fv := sendShutdown(ini, initFee); fv != nil {
			return fv
		}
		if _, err := r.deliver(ini); err != nil {
			return ret(r.fail("shutdown-error", "%s: shutdown received: %v", partyName(1-ini), err))
		}
		if len(sides[1-ini].outbox) < 1 {
			return ret(r.fail("shutdown-error", "%s did not answer shutdown", partyName(1-ini)))
		}
		if _, err := r.deliver(1 - ini); err != nil {
			return ret(r.fail("shutdown-error", "%s: shutdown reply received: %v", partyName(ini), err))
		}
	}
	// --- the early window: S's first offer reaches R before R is flushed
	var (
		earlyOffer *rbfOffer
		earlyClass string
		earlyNb    int
	)
	if early {
		switch sides[R].state.(type) {
		case *chancloser.ChannelFlushing, *chancloser.ShutdownPending:
		default:
			return ret(r.fail("no-early-window", "%s is in %v although its flush / post-send event is held back", partyName(R), sides[R].state))
		}
		if _, ok := sides[S].state.(*chancloser.ClosingNegotiation); !ok {
			return ret(r.fail("no-negotiation", "%s is in %v after the shutdown exchange on a clean channel", partyName(S), sides[S].state))
		}
		of, cl, fv := r.takeOffer(S, firstFee[S])
		if fv != nil {
			return fv
		}
		earlyOffer, earlyClass, earlyNb = of, cl, len(sides[R].bcast)
		if of != nil {
			r.tr.log("early: %s's closing_complete(fee=%d) reaches %s in %v", partyName(S), firstFee[S], partyName(R), sides[R].state)
			if err := r.deliverMsg(R, of.cc); err != nil {
				return stop(r.rejected(S, firstFee[S], err))
			}
		}
		// now R's link reports the flush / its post-send event is processed
		var err error
		if sides[R].holdFlush {
			err = sides[R].flush()
		} else {
			err = sides[R].releasePost()
		}
		if err != nil {
			if of != nil {
				return stop(r.rejected(S, firstFee[S], err))
			}
			return ret(r.fail("shutdown-error", "%s: flush: %v", partyName(R), err))
		}
	}
	for i := 0; i < 2; i++ {
		if _, ok := sides[i].state.(*chancloser.ClosingNegotiation); !ok {
			return ret(r.fail("no-negotiation", "%s is in %v after the shutdown exchange on a clean channel", partyName(i), sides[i].state))
		}
	}

	// --- rounds
	note := func(who int, cl string) { r.classes = append(r.classes, fmt.Sprintf("%s:%s", partyName(who), cl)) }
	for _, closer := range []int{S, R} {
		var (
			cl string
			fv *verdict
		)
		if early && closer == S {
			cl = earlyClass
			if earlyOffer != nil {
				cl, fv = r.finishRound(S, firstFee[S], earlyOffer, earlyNb)
			}
		} else {
			cl, fv = r.judgeRound(closer, firstFee[closer])
		}
		if fv != nil {
			return stop(fv)
		}
		note(closer, cl)
	}
	for k := 0; k < len(bumps); k++ {
		group := []RbfStep{bumps[k]}
		if bumps[k].Cross && k+1 < len(bumps) && bumps[k+1].By != bumps[k].By {
			group = append(group, bumps[k+1])
			k++
		}
		for gi, b := range group {
			err := sides[b.By].apply(&chancloser.SendOfferEvent{TargetFeeRate: chainfee.SatPerVByte(b.Fee)})
			if err != nil {
				ref := refClose(r.p.gross, r.p.dust, b.Fee, b.By, r.scripts)
				if !ref.ok && ref.reason == "no-outputs" && r.raw[b.By] >= b.Fee && gi == len(group)-1 && len(group) == 1 {
					note(b.By, "refused:no-outputs")
					return nil // the machine reported an error; the history ends here
				}
				return ret(r.fail("offer-error", "%s: SendOfferEvent(fee=%d): %v", partyName(b.By), b.Fee, err))
			}
		}
		for _, b := range group {
			cl, fv := r.judgeRound(b.By, b.Fee)
			if fv != nil {
				return stop(fv)
			}
			note(b.By, cl)
		}
	}
	return nil
}

func runRbf(p *pair, c RbfCase, tr tracer) verdict {
	v := verdict{}
	tag := p.typName
	r := &rbfRun{p: p, c: c, tr: tr}
	r.scripts = [2][]byte{deliveryScript(c.SA, 0), deliveryScript(c.SB, 1)}
	r.fail = func(sig, f string, a ...any) verdict {
		v.sig = "rbf:" + sig + ":" + tag
		cj, _ := json.Marshal(c)
		v.what = fmt.Sprintf(f, a...) + fmt.Sprintf(" [%s case %s gross=%v dust=%v opener=%s]", p.src.Name(), cj, p.gross, p.dust, partyName(p.opener))
		v.class = "VIOLATION:" + sig
		return v
	}
	defer func() {
		p.ch[0].ResetState()
		p.ch[1].ResetState()
	}()
	r.raw = [2]int64{int64(p.storedMsat[0] / 1000), int64(p.storedMsat[1] / 1000)}
	r.newSides(false)
	if fv := r.phase(c.Initiator, c.InitFee, c.FirstOffer, c.Early, c.Bumps); fv != nil {
		return *fv
	}
	if rs := c.Restart; rs != nil {
		// reconnect: the channels are loaded afresh, new machines without a link
		tr.log("restart: both peers reconnect (%d rounds so far)", r.rounds)
		p.ch[0].ResetState()
		p.ch[1].ResetState()
		r.classes = append(r.classes, "|restart|")
		r.newSides(true)
		if fv := r.phase(rs.Initiator, rs.InitFee, rs.FirstOffer, false, rs.Bumps); fv != nil {
			return *fv
		}
	}
	v.class = fmt.Sprintf("%v", r.classes)
	if r.rounds > 0 {
		flags := ""
		if c.Early {
			flags += "e"
		}
		if c.Upfront {
			flags += "u"
		}
		if c.MapperHeight != 0 {
			flags += "h"
		}
		v.cell = fmt.Sprintf("rbf|%s|open%s|init%d|first%s|%s|%s-%s|%v", p.typName, partyName(p.opener), c.Initiator, partyName(c.FirstOffer), flags, c.SA, c.SB, r.classes)
	}
	return v
}

// rbfCases: fee ladders for one pair, both directions. thaw is the channel's
// absolute thaw height (0 = none); rich says that both parties can pay fees of a
// few thousand satoshi.
func rbfCases(p0 chanmc.Params, gross, dust [2]int64, thorough bool, thaw uint32) []RbfCase {
	var out []RbfCase
	scripts := [][2]string{{"p2wkh", "p2wsh"}, {"p2tr", "p2wkh"}, {"p2wsh", "p2tr"}}
	n := 0
	low := -1
	for x := 0; x < 2; x++ {
		if gross[x] < 200_000 {
			low = x
		}
	}
	// walk: party x's fee through its balance and dust neighbourhoods, then (from
	// the CloseErr state the unpayable fees leave it in) a payable offer again and
	// an offer of the other party.
	walk := func(x int) []RbfStep {
		var l []RbfStep
		g := gross[x]
		for _, f := range []int64{g - dust[x] - 1, g - dust[x], g - dust[x] + 1, g - 1, g, g + 1} {
			if f >= 0 {
				l = append(l, RbfStep{By: x, Fee: f})
			}
		}
		return append(l, RbfStep{By: x, Fee: 0}, RbfStep{By: 1 - x, Fee: 1500})
	}
	for ini := 0; ini < 2; ini++ {
		for first := 0; first < 2; first++ {
			// ladders: a rising ladder per side, fees straddling what each side can pay
			var ladders [][]RbfStep
			ladders = append(ladders,
				[]RbfStep{{By: ini, Fee: 1500}, {By: 1 - ini, Fee: 2500}, {By: ini, Fee: 20_000}},
			)
			for x := 0; x < 2; x++ {
				if gross[x] < 200_000 {
					ladders = append(ladders, walk(x))
				}
			}
			for li, l := range ladders {
				if !thorough && li > 0 && (ini != first) {
					continue
				}
				sc := scripts[n%len(scripts)]
				n++
				out = append(out, RbfCase{Initiator: ini, InitFee: 1000, DefaultFee: [2]int64{700, 800}, FirstOffer: first, Bumps: l, SA: sc[0], SB: sc[1]})
			}
		}
	}
	// zero-fee and one-sat first offers
	out = append(out, RbfCase{Initiator: 0, InitFee: 0, DefaultFee: [2]int64{1, 1}, FirstOffer: 1, SA: "p2wkh", SB: "p2tr"})

	// --- windows, roles and restarts (audit round). First fees: what both can pay.
	mk := func(ini, first int) RbfCase {
		sc := scripts[n%len(scripts)]
		n++
		c := RbfCase{Initiator: ini, InitFee: 1000, DefaultFee: [2]int64{700, 800}, FirstOffer: first, SA: sc[0], SB: sc[1]}
		if low >= 0 {
			c.InitFee, c.DefaultFee = 2, [2]int64{1, 3}
		}
		return c
	}
	short := func(first int) []RbfStep {
		if low >= 0 {
			return []RbfStep{{By: 1 - low, Fee: 900}, {By: low, Fee: 0}}
		}
		return []RbfStep{{By: first, Fee: 1500}, {By: 1 - first, Fee: 2500}}
	}
	// (E) the first offer arrives before its receiver is flushed: receiver is the
	// shutdown initiator (ChannelFlushing window), the responder (ShutdownPending
	// window), or both sent shutdown at once.
	for ini := 0; ini < 3; ini++ {
		for first := 0; first < 2; first++ {
			if !thorough && low >= 0 && ini == 2 && first != low {
				continue
			}
			c := mk(ini, first)
			c.Early, c.Bumps = true, short(first)
			out = append(out, c)
		}
	}
	// (B) both parties send shutdown at the same time
	for first := 0; first < 2; first++ {
		if !thorough && low >= 0 && first == low {
			continue
		}
		c := mk(2, first)
		c.Bumps = short(1 - first)
		out = append(out, c)
	}
	// (X) two bumps in flight at the same time, twice, in both delivery orders
	if low < 0 {
		for first := 0; first < 2; first++ {
			c := mk(first, first)
			c.Bumps = []RbfStep{{By: first, Fee: 1500, Cross: true}, {By: 1 - first, Fee: 2500}, {By: 1 - first, Fee: 3000, Cross: true}, {By: first, Fee: 3500}}
			out = append(out, c)
		}
	} else {
		c := mk(low, 1-low)
		c.Bumps = []RbfStep{{By: low, Fee: 0, Cross: true}, {By: 1 - low, Fee: 900}, {By: 1 - low, Fee: 1100, Cross: true}, {By: low, Fee: 1}}
		out = append(out, c)
	}
	// (R) reconnect after some rounds: new machines without a link, the shutdown
	// exchange is repeated (by either party or both), offers continue
	for k, rs := range []RbfRestart{
		{Initiator: 1, InitFee: 2000, FirstOffer: 1, Bumps: []RbfStep{{By: 0, Fee: 3000}, {By: 1, Fee: 3500}}},
		{Initiator: 0, InitFee: 1200, FirstOffer: 1},
		{Initiator: 2, InitFee: 1300, FirstOffer: 0, Bumps: []RbfStep{{By: 1, Fee: 1700}}},
	} {
		if !thorough && low >= 0 && k == 1 {
			continue
		}
		rs := rs
		c := mk(k%2, (k/2)%2)
		if low >= 0 {
			// the low party walks its fee after the restart
			rs.InitFee = 2
			rs.Bumps = walk(low)
		} else if k == 0 {
			c.Bumps = []RbfStep{{By: 0, Fee: 1500}}
		}
		c.Restart = &rs
		out = append(out, c)
	}
	// (U) upfront shutdown scripts on both sides
	for ini := 0; ini < 2; ini++ {
		if !thorough && low >= 0 && ini != low {
			continue
		}
		c := mk(ini, 1-ini)
		c.Upfront, c.Bumps = true, short(ini)
		if ini == 1 {
			c.Restart = &RbfRestart{Initiator: 0, InitFee: c.InitFee, FirstOffer: 0}
		}
		out = append(out, c)
	}
	// (H) a frozen channel exactly at its thaw height
	if thaw > 0 {
		for ini := 0; ini < 2; ini++ {
			c := mk(ini, ini)
			c.MapperHeight, c.Bumps = thaw, short(ini)
			out = append(out, c)
		}
	}
	return out
}

func rbfJobs(thorough bool) []job {
	var jobs []job
	for _, typ := range chanmc.AllTypes {
		for _, ob := range []bool{false, true} {
			var srcs []Source
			srcs = append(srcs, bigSources(typ, ob, thorough)[:1]...)
			for i, s := range lowSources(typ, ob, thorough) {
				if (thorough && i%2 == 0) || i%4 == 0 {
					srcs = append(srcs, s)
				}
			}
			for _, src := range srcs {
				src := src
				jobs = append(jobs, job{name: "rbf " + src.Name(), part: "rbf", f: func(h *harness) {
					h.withPair(src, func(p *pair) {
						thaw, _ := p.ch[0].AbsoluteThawHeight()
						cases := rbfCases(src.P, p.gross, p.dust, thorough, thaw)
						for i := range cases {
							if h.expired() {
								return
							}
							c := cases[i]
							v := safely("rbf", func() verdict { return runRbf(p, c, nil) })
							if v.class == "harness-error" {
								h.harnessError(herr("%s", v.what))
								return
							}
							h.record(Replay{Part: "rbf", Src: &src, Rbf: &c}, v)
							if v.sig == "" && i == 0 {
								h.sample("rbf", map[string]any{"source": src.Name(), "case": c, "outcome": v.class})
							}
						}
					})
				}})
			}
		}
	}
	return jobs
}

// rbfDustJobs closes the class "a party prices an output with the wrong script /
// the two parties disagree on whether an output is dust": every ordered pair of
// wire-acceptable delivery scripts with different dust limits (all pairs in
// thorough) x each party's settled balance on every script dust limit -1/0/+1
// (plus zero and a large value) x both openers x both roles: in every history
// both parties make an offer, so the low party is closee in one round and closer
// in another; it then bumps to fee 0 and the other party bumps once more.
func rbfDustJobs(thorough bool) []job {
	var jobs []job
	types := quickDustTypes
	pairs := scriptPairs(wireScriptKinds, true)
	targets := dustTargets(wireScriptKinds)
	dusts := [][2]int64{{200, 1300}}
	if thorough {
		types = chanmc.AllTypes
		pairs = scriptPairs(wireScriptKinds, false)
		targets = dustTargets(allScriptKinds)
		dusts = append(dusts, [2]int64{354, 354})
	}
	for _, typ := range types {
		for _, ob := range []bool{false, true} {
			for _, cd := range dusts {
				for _, src := range scriptDustSources(typ, ob, targets, cd) {
					src := src
					jobs = append(jobs, job{name: "rbfdust " + src.Name(), part: "rbf", f: func(h *harness) {
						h.withPair(src, func(p *pair) {
							low := 0
							if p.gross[1] < p.gross[0] {
								low = 1
							}
							for k, sc := range pairs {
								inis := []int{k % 2}
								if thorough {
									inis = []int{0, 1}
								}
								for _, ini := range inis {
									if h.expired() {
										return
									}
									c := RbfCase{Initiator: ini, InitFee: 100, DefaultFee: [2]int64{100, 100}, FirstOffer: (k / 2) % 2,
										Bumps: []RbfStep{{By: low, Fee: 0}, {By: 1 - low, Fee: 500}}, SA: sc[0], SB: sc[1]}
									v := safely("rbf", func() verdict { return runRbf(p, c, nil) })
									if v.class == "harness-error" {
										h.harnessError(herr("%s", v.what))
										return
									}
									h.record(Replay{Part: "rbf", Src: &src, Rbf: &c}, v)
									if v.sig == "" && k == 0 {
										h.sample("rbf", map[string]any{"source": src.Name(), "case": c, "outcome": v.class})
									}
								}
							}
						})
					}})
				}
			}
		}
	}
	return jobs
}
