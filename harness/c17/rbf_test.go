// rbf_test.go: the RBF cooperative close flow. Each party's rbf_coop state
// machine (the exported state types of lnwallet/chancloser) is driven event by
// event through its ProcessEvent method by a synchronous re-implementation of
// protofsm's applyEvents loop: internal events are queued and processed in order,
// SendMsgEvents go to the harness wire (encoded and decoded with lnwire), post-send
// events are queued, BroadcastTxn events are recorded. Wire messages are mapped to
// events with the real chancloser.RbfMsgMapper. The Environment is wired like
// peer.initRbfChanCloser does (CloseSigner = the real channel, musig sessions =
// peer.MusigChanCloser, observer backed by the real channel, BlockHeight zero).
package c17

import (
	"bytes"
	"errors"
	"fmt"

	"github.com/btcsuite/btcd/btcutil/v2"
	"github.com/btcsuite/btcd/chaincfg/v2"
	"github.com/btcsuite/btcd/wire/v2"
	"github.com/lightningnetwork/lnd/channeldb"
	"github.com/lightningnetwork/lnd/fn/v2"
	"github.com/lightningnetwork/lnd/lntypes"
	"github.com/lightningnetwork/lnd/lnwallet"
	"github.com/lightningnetwork/lnd/lnwallet/chainfee"
	"github.com/lightningnetwork/lnd/lnwallet/chancloser"
	"github.com/lightningnetwork/lnd/lnwire"
	"github.com/lightningnetwork/lnd/msgmux"
	"github.com/lightningnetwork/lnd/peer"
	"github.com/lightningnetwork/lnd/protofsm"
	"github.com/lightningnetwork/lnd/verifmc/chanmc"
)

// RbfStep is one later fee bump: party By asks its machine for a new offer.
type RbfStep struct {
	By  int   `json:"by"`
	Fee int64 `json:"fee"`
}

// RbfCase is one RBF close history.
type RbfCase struct {
	Initiator int `json:"initiator"` // who sends shutdown first, with InitFee as its ideal fee
	InitFee   int64 `json:"init_fee"`
	// DefaultFee is each side's Environment.DefaultFeeRate (as absolute fee): the
	// responder's first offer uses it.
	DefaultFee [2]int64 `json:"default_fee"`
	// FirstOffer: whose first-round closing_complete is delivered first (both
	// sides make an offer right after the flush).
	FirstOffer int       `json:"first_offer"`
	Bumps      []RbfStep `json:"bumps"`
	SA         string    `json:"script_a"`
	SB         string    `json:"script_b"`
	// EnvBlockHeight sets Environment.BlockHeight. lnd's peer never sets it
	// (zero); non-zero values are not enumerated, only reachable through a
	// hand-written replay file (probe of a latent inconsistency, see report).
	EnvBlockHeight uint32 `json:"env_block_height,omitempty"`
}

// rbfEstimator: absolute fee = sat/vbyte value of the requested rate.
type rbfEstimator struct{}

func (rbfEstimator) EstimateFee(_ channeldb.ChannelType, _, _ *wire.TxOut, rate chainfee.SatPerKWeight) btcutil.Amount {
	return btcutil.Amount(rate.FeePerVByte())
}

// rbfObserver is the chancloser.ChanStateObserver backed by the real channel; the
// two flags stand for the link's add-disabling (peer.chanObserver + channelLink).
type rbfObserver struct {
	ch                       *lnwallet.LightningChannel
	inDisabled, outDisabled  bool
	shutdownMarked, coopMark int
}

func (o *rbfObserver) NoDanglingUpdates() bool    { return !o.ch.OweCommitment() }
func (o *rbfObserver) DisableIncomingAdds() error { o.inDisabled = true; return nil }
func (o *rbfObserver) DisableOutgoingAdds() error { o.outDisabled = true; return nil }
func (o *rbfObserver) DisableChannel() error      { return nil }
func (o *rbfObserver) MarkCoopBroadcasted(tx *wire.MsgTx, local bool) error {
	o.coopMark++
	who := lntypes.Remote
	if local {
		who = lntypes.Local
	}
	return o.ch.MarkCoopBroadcasted(tx, who)
}
func (o *rbfObserver) MarkShutdownSent(addr []byte, isInitiator bool) error {
	o.shutdownMarked++
	return o.ch.MarkShutdownSent(channeldb.NewShutdownInfo(addr, isInitiator))
}
func (o *rbfObserver) FinalBalances() fn.Option[chancloser.ShutdownBalances] {
	if o.inDisabled && o.outDisabled && o.ch.IsChannelClean() {
		s := o.ch.StateSnapshot()
		return fn.Some(chancloser.ShutdownBalances{LocalBalance: s.LocalBalance, RemoteBalance: s.RemoteBalance})
	}
	return fn.None[chancloser.ShutdownBalances]()
}

type rbfSide struct {
	idx     int
	state   chancloser.RbfState
	env     *chancloser.Environment
	obs     *rbfObserver
	mapper  *chancloser.RbfMsgMapper
	outbox  []lnwire.Message
	bcast   []*wire.MsgTx
	flushed bool
	tr      tracer
}

// apply mirrors protofsm.StateMachine.applyEvents, synchronously.
func (s *rbfSide) apply(ev chancloser.ProtocolEvent) error {
	queue := []chancloser.ProtocolEvent{ev}
	for len(queue) > 0 {
		e := queue[0]
		queue = queue[1:]
		tr, err := s.state.ProcessEvent(e, s.env)
		if err != nil {
			s.tr.log("%s: %T in %v -> error: %v", partyName(s.idx), e, s.state, err)
			return err
		}
		var herrOut error
		tr.NewEvents.WhenSome(func(em protofsm.EmittedEvent[chancloser.ProtocolEvent]) {
			for _, d := range em.ExternalEvents {
				switch de := d.(type) {
				case *protofsm.SendMsgEvent[chancloser.ProtocolEvent]:
					ok := true
					de.SendWhen.WhenSome(func(pred protofsm.SendPredicate) { ok = pred() })
					if !ok {
						herrOut = herr("send predicate false on a clean channel")
						return
					}
					s.outbox = append(s.outbox, de.Msgs...)
					de.PostSendEvent.WhenSome(func(pe chancloser.ProtocolEvent) { queue = append(queue, pe) })
				case *protofsm.BroadcastTxn:
					s.bcast = append(s.bcast, de.Tx)
				}
			}
			queue = append(queue, em.InternalEvent...)
		})
		if herrOut != nil {
			return herrOut
		}
		s.tr.log("%s: %T: %v -> %v", partyName(s.idx), e, s.state, tr.NextState)
		s.state = tr.NextState
		// The peer sends ChannelFlushed once the machine waits in ChannelFlushing
		// and the link reports the channel flushed (it is clean here).
		if _, ok := s.state.(*chancloser.ChannelFlushing); ok && !s.flushed {
			s.flushed = true
			snap := s.obs.ch.StateSnapshot()
			queue = append(queue, &chancloser.ChannelFlushed{ShutdownBalances: chancloser.ShutdownBalances{
				LocalBalance: snap.LocalBalance, RemoteBalance: snap.RemoteBalance}})
		}
	}
	return nil
}

func wireRoundTrip(m lnwire.Message) (lnwire.Message, error) {
	var b bytes.Buffer
	if _, err := lnwire.WriteMessage(&b, m, 0); err != nil {
		return nil, err
	}
	return lnwire.ReadMessage(&b, 0)
}

func runRbf(p *pair, c RbfCase, tr tracer) verdict {
	scripts := [2][]byte{deliveryScript(c.SA, 0), deliveryScript(c.SB, 1)}
	v := verdict{}
	tag := p.typName
	fail := func(sig, f string, a ...any) verdict {
		v.sig = "rbf:" + sig + ":" + tag
		v.what = fmt.Sprintf(f, a...) + fmt.Sprintf(" [%s case %+v gross=%v dust=%v opener=%s]", p.src.Name(), c, p.gross, p.dust, partyName(p.opener))
		v.class = "VIOLATION:" + sig
		return v
	}
	defer func() {
		p.ch[0].ResetState()
		p.ch[1].ResetState()
	}()
	raw := [2]int64{int64(p.storedMsat[0] / 1000), int64(p.storedMsat[1] / 1000)}
	var sides [2]*rbfSide
	for i := 0; i < 2; i++ {
		i := i
		ch := p.ch[i]
		peerPub := *p.ch[i].State().IdentityPub // the remote node's identity in this fixture
		chanID := lnwire.NewChanIDFromOutPoint(ch.ChannelPoint())
		obs := &rbfObserver{ch: ch}
		thaw, _ := ch.AbsoluteThawHeight()
		env := &chancloser.Environment{
			ChainParams:    chaincfg.RegressionNetParams,
			ChanPeer:       peerPub,
			ChanPoint:      ch.ChannelPoint(),
			ChanID:         chanID,
			Scid:           ch.ShortChanID(),
			ChanType:       ch.ChanType(),
			BlockHeight:    c.EnvBlockHeight,
			DefaultFeeRate: chainfee.SatPerVByte(c.DefaultFee[i]),
			ThawHeight:     fn.Some(thaw),
			NewDeliveryScript: func() (lnwire.DeliveryAddress, error) {
				return scripts[i], nil
			},
			FeeEstimator: rbfEstimator{},
			CloseSigner:  ch,
			ChanObserver: obs,
		}
		if p.ct.IsTaproot() {
			env.LocalMusigSession = peer.NewMusigChanCloser(ch)
			env.RemoteMusigSession = peer.NewMusigChanCloser(ch)
		}
		sides[i] = &rbfSide{idx: i, state: &chancloser.ChannelActive{}, env: env, obs: obs, tr: tr,
			mapper: chancloser.NewRbfMsgMapper(func() uint32 { return negHeight }, chanID, peerPub)}
	}
	// deliver moves the oldest message of from's outbox to the other side.
	deliver := func(from int) (lnwire.Message, error) {
		s, d := sides[from], sides[1-from]
		m := s.outbox[0]
		s.outbox = s.outbox[1:]
		mm, err := wireRoundTrip(m)
		if err != nil {
			return m, herr("wire round trip of %T: %v", m, err)
		}
		ev := d.mapper.MapMsg(msgmux.PeerMsg{Message: mm, PeerPub: d.env.ChanPeer})
		if ev.IsNone() {
			return m, herr("message %T not mapped to an event", m)
		}
		return m, d.apply(ev.UnsafeFromSome())
	}
	isHarness := func(err error) bool {
		var he *harnessErr
		return errors.As(err, &he)
	}

	// --- shutdown exchange
	ini := c.Initiator
	if err := sides[ini].apply(&chancloser.SendShutdown{
		DeliveryAddr: fn.Some(lnwire.DeliveryAddress(scripts[ini])),
		IdealFeeRate: chainfee.SatPerVByte(c.InitFee),
	}); err != nil {
		return fail("shutdown-error", "%s: SendShutdown: %v", partyName(ini), err)
	}
	if len(sides[ini].outbox) != 1 {
		return fail("shutdown-error", "%s did not send shutdown", partyName(ini))
	}
	if _, err := deliver(ini); err != nil {
		return fail("shutdown-error", "%s: shutdown received: %v", partyName(1-ini), err)
	}
	if len(sides[1-ini].outbox) < 1 {
		return fail("shutdown-error", "%s did not answer shutdown", partyName(1-ini))
	}
	if _, err := deliver(1 - ini); err != nil {
		return fail("shutdown-error", "%s: shutdown reply received: %v", partyName(ini), err)
	}
	for i := 0; i < 2; i++ {
		if _, ok := sides[i].state.(*chancloser.ClosingNegotiation); !ok {
			return fail("no-negotiation", "%s is in %v after the shutdown exchange on a clean channel", partyName(i), sides[i].state)
		}
	}

	// --- rounds
	firstFee := [2]int64{}
	firstFee[ini] = c.InitFee
	firstFee[1-ini] = c.DefaultFee[1-ini]
	rounds := 0
	var classes []string
	// judgeRound carries closer's pending closing_complete (if any) to the closee
	// and the closing_sig back, and judges the two transactions.
	judgeRound := func(closer int, fee int64) (string, *verdict) {
		cs, ce := sides[closer], sides[1-closer]
		ref := refClose(p.gross, p.dust, fee, closer, scripts)
		if len(cs.outbox) == 0 {
			// no offer was made
			if raw[closer] >= fee {
				fv := fail("honest-offer-missing", "%s can pay fee %d from its balance %d but made no offer (state %v)", partyName(closer), fee, raw[closer], cs.state)
				return "", &fv
			}
			if ref.reason == "cannot-afford" {
				return "no-offer:cannot-afford", nil
			}
			return "no-offer:conservative", nil // fee above the stored balance but within balance+commit fee
		}
		cc, ok := cs.outbox[0].(*lnwire.ClosingComplete)
		if !ok {
			fv := fail("unexpected-message", "%s sent %T instead of closing_complete", partyName(closer), cs.outbox[0])
			return "", &fv
		}
		if int64(cc.FeeSatoshis) != fee || !bytes.Equal(cc.CloserScript, scripts[closer]) || !bytes.Equal(cc.CloseeScript, scripts[1-closer]) {
			fv := fail("offer-mismatch", "closing_complete fee=%d scripts %x/%x, asked fee %d", cc.FeeSatoshis, cc.CloserScript, cc.CloseeScript, fee)
			return "", &fv
		}
		if !ref.ok {
			fv := fail("offered-"+ref.reason, "%s offered fee %d which the reference refuses (%s)", partyName(closer), fee, ref.reason)
			return "", &fv
		}
		nb := len(ce.bcast)
		if _, err := deliver(closer); err != nil {
			if isHarness(err) {
				fv := fail("harness", "%v", err)
				fv.sig = ""
				return "", &fv
			}
			fv := fail("honest-offer-rejected", "%s rejected %s's closing_complete(fee=%d): %v", partyName(1-closer), partyName(closer), fee, err)
			return "", &fv
		}
		if len(ce.bcast) != nb+1 || len(ce.outbox) == 0 {
			fv := fail("closee-no-tx", "%s accepted the offer without broadcasting/answering (broadcasts %d, outbox %d)", partyName(1-closer), len(ce.bcast)-nb, len(ce.outbox))
			return "", &fv
		}
		nb2 := len(cs.bcast)
		// the closing_sig is the newest message in the closee's outbox; older
		// entries may be its own pending offer
		k := -1
		for j, m := range ce.outbox {
			if _, ok := m.(*lnwire.ClosingSig); ok {
				k = j
			}
		}
		if k < 0 {
			fv := fail("closee-no-sig", "%s did not send closing_sig", partyName(1-closer))
			return "", &fv
		}
		sigMsg := ce.outbox[k]
		ce.outbox = append(ce.outbox[:k:k], ce.outbox[k+1:]...)
		ce.outbox = append([]lnwire.Message{sigMsg}, ce.outbox...)
		if _, err := deliver(1 - closer); err != nil {
			fv := fail("honest-sig-rejected", "%s rejected %s's closing_sig(fee=%d): %v", partyName(closer), partyName(1-closer), fee, err)
			return "", &fv
		}
		if len(cs.bcast) != nb2+1 {
			fv := fail("closer-no-tx", "%s did not broadcast after closing_sig", partyName(closer))
			return "", &fv
		}
		t1, t2 := ce.bcast[len(ce.bcast)-1], cs.bcast[len(cs.bcast)-1]
		if !bytes.Equal(txBytesNoWitness(t1), txBytesNoWitness(t2)) {
			fv := fail("tx-not-identical", "closer %s and closee built different transactions for fee %d: closee=%x closer=%x", partyName(closer), fee, txBytesNoWitness(t1), txBytesNoWitness(t2))
			return "", &fv
		}
		seq, lock := maxRBFSeq, cc.LockTime
		if sig, what := p.checkTxAgainstRef(t1, ref, fee, &seq, &lock); sig != "" {
			fv := fail(sig, "closer %s fee %d: %s", partyName(closer), fee, what)
			return "", &fv
		}
		for k, t := range []*wire.MsgTx{t1, t2} {
			if k == 1 && bytes.Equal(txBytesFull(t1), txBytesFull(t2)) {
				continue
			}
			if err := p.engineVerdict(t); err != nil {
				fv := fail("script-invalid", "RBF closing tx (closer %s, fee %d) fails the script interpreter: %v", partyName(closer), fee, err)
				return "", &fv
			}
		}
		rounds++
		tr.log("round ok: closer %s fee %d outputs %s", partyName(closer), fee, outsKey(t1.TxOut))
		return "closed:" + ref.shape(), nil
	}
	order := []int{c.FirstOffer, 1 - c.FirstOffer}
	for _, closer := range order {
		cl, fv := judgeRound(closer, firstFee[closer])
		if fv != nil {
			if fv.sig == "" {
				return verdict{class: "harness-error", what: fv.what}
			}
			return *fv
		}
		classes = append(classes, fmt.Sprintf("%s:%s", partyName(closer), cl))
	}
	for _, b := range c.Bumps {
		s := sides[b.By]
		err := s.apply(&chancloser.SendOfferEvent{TargetFeeRate: chainfee.SatPerVByte(b.Fee)})
		if err != nil {
			ref := refClose(p.gross, p.dust, b.Fee, b.By, scripts)
			if !ref.ok && ref.reason == "no-outputs" && raw[b.By] >= b.Fee {
				classes = append(classes, fmt.Sprintf("%s:refused:no-outputs", partyName(b.By)))
				break // the machine reported an error; the history ends here
			}
			return fail("offer-error", "%s: SendOfferEvent(fee=%d): %v", partyName(b.By), b.Fee, err)
		}
		cl, fv := judgeRound(b.By, b.Fee)
		if fv != nil {
			if fv.sig == "" {
				return verdict{class: "harness-error", what: fv.what}
			}
			return *fv
		}
		classes = append(classes, fmt.Sprintf("%s:%s", partyName(b.By), cl))
	}
	v.class = fmt.Sprintf("%v", classes)
	if rounds > 0 {
		v.cell = fmt.Sprintf("rbf|%s|open%s|init%s|first%s|%s-%s|%v", p.typName, partyName(p.opener), partyName(ini), partyName(c.FirstOffer), c.SA, c.SB, classes)
	}
	return v
}

// rbfCases: fee ladders for one pair, both directions.
func rbfCases(p0 chanmc.Params, gross, dust [2]int64, thorough bool) []RbfCase {
	var out []RbfCase
	scripts := [][2]string{{"p2wkh", "p2wsh"}, {"p2tr", "p2wkh"}, {"p2wsh", "p2tr"}}
	n := 0
	for ini := 0; ini < 2; ini++ {
		for first := 0; first < 2; first++ {
			// ladders: a rising ladder per side, fees straddling what each side can pay
			var ladders [][]RbfStep
			ladders = append(ladders,
				[]RbfStep{{By: ini, Fee: 1500}, {By: 1 - ini, Fee: 2500}, {By: ini, Fee: 20_000}},
			)
			for x := 0; x < 2; x++ {
				g := gross[x]
				if g < 200_000 {
					// low party: walk its fee through balance and dust neighbourhoods
					var l []RbfStep
					for _, f := range []int64{g - dust[x] - 1, g - dust[x], g - dust[x] + 1, g - 1, g, g + 1} {
						if f >= 0 {
							l = append(l, RbfStep{By: x, Fee: f})
						}
					}
					ladders = append(ladders, l)
				}
			}
			for li, l := range ladders {
				if !thorough && li > 0 && (ini != first) {
					continue
				}
				sc := scripts[n%len(scripts)]
				n++
				out = append(out, RbfCase{Initiator: ini, InitFee: 1000, DefaultFee: [2]int64{700, 800}, FirstOffer: first, Bumps: l, SA: sc[0], SB: sc[1]})
			}
		}
	}
	// zero-fee and one-sat first offers
	out = append(out, RbfCase{Initiator: 0, InitFee: 0, DefaultFee: [2]int64{1, 1}, FirstOffer: 1, SA: "p2wkh", SB: "p2tr"})
	return out
}

func rbfJobs(thorough bool) []job {
	var jobs []job
	for _, typ := range chanmc.AllTypes {
		for _, ob := range []bool{false, true} {
			var srcs []Source
			srcs = append(srcs, bigSources(typ, ob, thorough)[:1]...)
			for i, s := range lowSources(typ, ob, thorough) {
				if (thorough && i%2 == 0) || i%4 == 0 {
					srcs = append(srcs, s)
				}
			}
			for _, src := range srcs {
				src := src
				jobs = append(jobs, job{name: "rbf " + src.Name(), part: "rbf", f: func(h *harness) {
					h.withPair(src, func(p *pair) {
						cases := rbfCases(src.P, p.gross, p.dust, thorough)
						for i := range cases {
							if h.expired() {
								return
							}
							c := cases[i]
							v := safely("rbf", func() verdict { return runRbf(p, c, nil) })
							if v.class == "harness-error" {
								h.harnessError(herr("%s", v.what))
								return
							}
							h.record(Replay{Part: "rbf", Src: &src, Rbf: &c}, v)
							if v.sig == "" && i == 0 {
								h.sample("rbf", map[string]any{"source": src.Name(), "case": c, "outcome": v.class})
							}
						}
					})
				}})
			}
		}
	}
	return jobs
}

// rbfDustJobs closes the class "a party prices an output with the wrong script /
// the two parties disagree on whether an output is dust": every ordered pair of
// wire-acceptable delivery scripts with different dust limits (all pairs in
// thorough) x each party's settled balance on every script dust limit -1/0/+1
// (plus zero and a large value) x both openers x both roles: in every history
// both parties make an offer, so the low party is closee in one round and closer
// in another; it then bumps to fee 0 and the other party bumps once more.
func rbfDustJobs(thorough bool) []job {
	var jobs []job
	types := quickDustTypes
	pairs := scriptPairs(wireScriptKinds, true)
	targets := dustTargets(wireScriptKinds)
	dusts := [][2]int64{{200, 1300}}
	if thorough {
		types = chanmc.AllTypes
		pairs = scriptPairs(wireScriptKinds, false)
		targets = dustTargets(allScriptKinds)
		dusts = append(dusts, [2]int64{354, 354})
	}
	for _, typ := range types {
		for _, ob := range []bool{false, true} {
			for _, cd := range dusts {
				for _, src := range scriptDustSources(typ, ob, targets, cd) {
					src := src
					jobs = append(jobs, job{name: "rbfdust " + src.Name(), part: "rbf", f: func(h *harness) {
						h.withPair(src, func(p *pair) {
							low := 0
							if p.gross[1] < p.gross[0] {
								low = 1
							}
							for k, sc := range pairs {
								inis := []int{k % 2}
								if thorough {
									inis = []int{0, 1}
								}
								for _, ini := range inis {
									if h.expired() {
										return
									}
									c := RbfCase{Initiator: ini, InitFee: 100, DefaultFee: [2]int64{100, 100}, FirstOffer: (k / 2) % 2,
										Bumps: []RbfStep{{By: low, Fee: 0}, {By: 1 - low, Fee: 500}}, SA: sc[0], SB: sc[1]}
									v := safely("rbf", func() verdict { return runRbf(p, c, nil) })
									if v.class == "harness-error" {
										h.harnessError(herr("%s", v.what))
										return
									}
									h.record(Replay{Part: "rbf", Src: &src, Rbf: &c}, v)
									if v.sig == "" && k == 0 {
										h.sample("rbf", map[string]any{"source": src.Name(), "case": c, "outcome": v.class})
									}
								}
							}
						})
					}})
				}
			}
		}
	}
	return jobs
}
