// C17 — cooperative close pays each side its exact balance and both sign the same tx.
//
// common_test.go: the channel-pair abstraction (two real LightningChannels), the
// two sources of pairs (chanmc worlds drained through short histories; the
// harness-local low-balance constructor), the reference model written from the
// property statement, and the transaction oracle.
package c17

import (
	"bytes"
	"fmt"
	"sort"
	"strings"
	"sync/atomic"

	"github.com/btcsuite/btcd/btcec/v2"
	"github.com/btcsuite/btcd/btcec/v2/ecdsa"
	"github.com/btcsuite/btcd/chainhash/v2"
	"github.com/btcsuite/btcd/txscript/v2"
	"github.com/btcsuite/btcd/wire/v2"
	"github.com/lightningnetwork/lnd/chanstate"
	"github.com/lightningnetwork/lnd/fn/v2"
	"github.com/lightningnetwork/lnd/input"
	"github.com/lightningnetwork/lnd/lnwallet"
	"github.com/lightningnetwork/lnd/verifmc/chanmc"
)

const (
	maxRBFSeq = uint32(0xfffffffd) // mempool.MaxRBFSequence
	finalSeq  = uint32(0xffffffff)
	anchorSat = int64(330)
)

// Source says how a pair of channels is obtained: a chanmc world (type, opener,
// capacity, initial split, reserve, dust limits, fee rate) drained through its
// script with the eager schedule. It is part of every replay artefact.
type Source struct {
	P chanmc.Params `json:"params"`
}

func (s Source) Name() string {
	p := s.P.Normalize()
	return fmt.Sprintf("%s/cap%d/grossA%d/kw%d", p.Name(), p.CapacitySat, p.GrossA, p.FeePerKw)
}

// pair is two real channels in a clean state plus what the harness knows about
// them independently of lnd's close code.
type pair struct {
	src      Source
	typName  string
	ct       chanstate.ChannelType
	ch       [2]*lnwallet.LightningChannel
	pub      [2]*btcec.PublicKey // multisig keys
	opener   int
	dust     [2]int64
	capacity int64
	// gross[i]: what party i owns of the funding output, in whole satoshi, by
	// the harness' own bookkeeping: the non-opener owns its balance, the opener
	// owns everything else (its balance plus the dangling commitment fee plus
	// the anchor amounts). msat remainders are truncated per party.
	gross [2]int64
	// storedMsat[i]: the commitment balance lnd is expected to hold (reference).
	storedMsat [2]uint64
	outpoint   wire.OutPoint
	fundOut    *wire.TxOut // derived by the harness from the two multisig keys
	witScript  []byte      // nil for taproot
	closeFn    func()
	hist       []string
}

func (p *pair) Close() {
	if p.closeFn != nil {
		p.closeFn()
		p.closeFn = nil
	}
}

// harnessErr is a fixture/driver problem (never a property violation).
type harnessErr struct{ msg string }

func (e *harnessErr) Error() string { return "harness: " + e.msg }

func herr(f string, a ...any) error { return &harnessErr{fmt.Sprintf(f, a...)} }

var worldViolations atomic.Int64

// buildPair constructs the pair described by src.
func buildPair(src Source) (*pair, error) {
	P := src.P.Normalize()
	rep := func(sig, what string, hist []string, pp chanmc.Params) {
		// chanmc's own oracles (C01) fired while reaching the clean state: that
		// is not a C17 verdict, but the source is then not trustworthy.
		worldViolations.Add(1)
	}
	w, err := chanmc.New(P, rep, nil)
	if err != nil {
		return nil, herr("chanmc.New(%s): %v", src.Name(), err)
	}
	for n := 0; len(w.Enabled()) > 0; n++ {
		if n > 400 {
			w.Close()
			return nil, herr("eager schedule did not drain in 400 steps")
		}
		if err := w.Do(w.Enabled()[0]); err != nil {
			w.Close()
			return nil, herr("Do: %v", err)
		}
	}
	p := &pair{src: src, typName: P.Type, ct: w.ChanType(), opener: w.Opener(), capacity: P.CapacitySat, hist: w.Hist()}
	p.closeFn = w.Close
	// Bookkeeping of ownership in msat: the initial split, moved by every HTLC
	// the script settled.
	bal := [2]int64{P.GrossA * 1000, (P.CapacitySat - P.GrossA) * 1000}
	for k := 0; k < w.NumIntents(); k++ {
		in, _, sent := w.Intent(k)
		if sent && in.Fate == "settle" {
			bal[in.By] -= int64(in.Amt)
			bal[1-in.By] += int64(in.Amt)
		}
	}
	for i := 0; i < 2; i++ {
		p.ch[i] = w.Chan(i)
		p.pub[i] = w.Keys(i)[0].PubKey()
		p.dust[i] = w.Dust(i)
		p.gross[i] = bal[i] / 1000
		if !p.ch[i].IsChannelClean() {
			p.Close()
			return nil, herr("channel %d not clean after drain (hist %v)", i, w.Hist())
		}
	}
	// Expected stored balances: the opener's balance is held net of the commit
	// fee (at the last fee level the script set) and the anchors.
	credit := int64(p.ch[p.opener].CommitFee())
	if p.ct.HasAnchors() {
		credit += 2 * anchorSat
	}
	for i := 0; i < 2; i++ {
		s := bal[i]
		if i == p.opener {
			s -= credit * 1000
		}
		if s < 0 {
			p.Close()
			return nil, herr("negative stored balance for %s in %s", partyName(i), src.Name())
		}
		p.storedMsat[i] = uint64(s)
	}
	p.outpoint = p.ch[0].ChannelPoint()
	if err := p.deriveFunding(); err != nil {
		p.Close()
		return nil, err
	}
	return p, nil
}

// deriveFunding computes the funding output from the two multisig keys, without
// asking the channel, and cross-checks the channel's own view.
func (p *pair) deriveFunding() error {
	var err error
	if p.ct.IsTaproot() {
		_, p.fundOut, err = input.GenTaprootFundingScript(p.pub[0], p.pub[1], p.capacity, fn.None[chainhash.Hash]())
	} else {
		p.witScript, p.fundOut, err = input.GenFundingPkScript(p.pub[0].SerializeCompressed(), p.pub[1].SerializeCompressed(), p.capacity)
	}
	if err != nil {
		return herr("funding script: %v", err)
	}
	for i := 0; i < 2; i++ {
		fo := p.ch[i].FundingTxOut()
		if fo.Value != p.fundOut.Value || !bytes.Equal(fo.PkScript, p.fundOut.PkScript) {
			return herr("channel %d funding output differs from the harness derivation", i)
		}
	}
	return nil
}

// ---------------------------------------------------------------------------
// delivery scripts

var scriptKinds = []string{"p2wkh", "p2wsh", "p2tr"}

// scriptDust: relay dust limit of an output paying to each script kind (what
// lnwallet.DustLimitForSize prices by script length); planning data only — it
// chooses which balances are enumerated, no oracle uses it.
var scriptDust = map[string]int64{"p2wkh": 294, "p2wsh": 330, "p2tr": 330, "wv2": 354, "p2sh": 540, "p2pkh": 546}

// wireScriptKinds are the kinds an honest lnd peer accepts in shutdown;
// allScriptKinds adds the legacy ones the channel API itself does not refuse.
var (
	wireScriptKinds = []string{"p2wkh", "p2wsh", "p2tr", "wv2"}
	allScriptKinds  = []string{"p2wkh", "p2wsh", "p2tr", "wv2", "p2sh", "p2pkh"}
)

// scriptPairs: ordered pairs over kinds; onlyDiffDust keeps the pairs whose two
// scripts have different dust limits.
func scriptPairs(kinds []string, onlyDiffDust bool) [][2]string {
	var out [][2]string
	for _, a := range kinds {
		for _, b := range kinds {
			if onlyDiffDust && scriptDust[a] == scriptDust[b] {
				continue
			}
			out = append(out, [2]string{a, b})
		}
	}
	return out
}

// dustTargets: every distinct script dust limit of kinds -1/0/+1, zero, and a large value.
func dustTargets(kinds []string) []int64 {
	s := map[int64]bool{0: true, 5000: true}
	for _, k := range kinds {
		for _, d := range []int64{-1, 0, 1} {
			s[scriptDust[k]+d] = true
		}
	}
	return sortedKeys(s)
}

// deliveryScript returns a well-formed delivery script of the given kind,
// distinct per party.
func deliveryScript(kind string, party int) []byte {
	fill := func(n int, seed byte) []byte {
		b := make([]byte, n)
		for i := range b {
			b[i] = seed + byte(i*3)
		}
		return b
	}
	seed := byte(0x11 + 0x40*party)
	switch kind {
	case "p2wkh":
		return append([]byte{0x00, 0x14}, fill(20, seed)...)
	case "p2wsh":
		return append([]byte{0x00, 0x20}, fill(32, seed+1)...)
	case "p2sh":
		// OP_HASH160 <20> OP_EQUAL (23 bytes). lnd's own shutdown validation refuses
		// it, so it only occurs in the api part (direct channel API).
		return append(append([]byte{0xa9, 0x14}, fill(20, seed+2)...), 0x87)
	case "p2pkh":
		// OP_DUP OP_HASH160 <20> OP_EQUALVERIFY OP_CHECKSIG (25 bytes), api part only.
		return append(append([]byte{0x76, 0xa9, 0x14}, fill(20, seed+3)...), 0x88, 0xac)
	case "wv2":
		// a future segwit version: OP_2 <30 bytes> (32 bytes): accepted by
		// ValidateUpfrontShutdown, priced as an unknown witness output (354 sat).
		return append([]byte{0x52, 0x1e}, fill(30, seed+4)...)
	case "opret":
		// OP_RETURN <20 bytes of data> (simple-close only: the owner burns its funds;
		// lnd's shutdown validation refuses it, so pure/api parts only).
		return append([]byte{0x6a, 0x14}, fill(20, seed+5)...)
	case "opret1":
		// a bare OP_RETURN (one byte, the same for both parties)
		return []byte{0x6a}
	case "p2tr":
		// x-only key of a fixed private key so the output is a valid taproot key.
		var k [32]byte
		k[31] = 7 + byte(party)
		_, pub := btcec.PrivKeyFromBytes(k[:])
		return append([]byte{0x51, 0x20}, pub.SerializeCompressed()[1:]...)
	}
	panic("unknown script kind " + kind)
}

// ---------------------------------------------------------------------------
// reference model (from the property statement)

type refResult struct {
	ok     bool
	reason string   // when !ok: "cannot-afford" | "no-outputs"
	net    [2]int64 // gross minus fee for the payer
	has    [2]bool  // output present (net >= owner's dust limit)
	outs   []*wire.TxOut
	trim   int64   // value of trimmed outputs (goes to miners)
	burn   [2]bool // output present but zero-valued: the owner's delivery script is an OP_RETURN (simple close)
}

// isOpReturn: the harness' own test (it only generates well-formed scripts).
func isOpReturn(script []byte) bool { return len(script) > 0 && script[0] == 0x6a }

// withOpReturn applies the simple-close rule of BOLT 2 (closing_complete: an
// OP_RETURN closer/closee script means "the output amount is zero"): a party that
// hands in an OP_RETURN delivery script gives its whole balance to the miners by
// its own choice. Whether the output is present is still decided by the owner's
// dust limit on its balance; the burnt amount is accounted like trimmed value.
// Only used for the flow with a custom sequence (WithCustomSequence /
// WithCustomTxInSequence = the RBF flow); the legacy flow never sees OP_RETURN.
func (r refResult) withOpReturn(scripts [2][]byte) refResult {
	if !r.ok {
		return r
	}
	var outs []*wire.TxOut
	for i := 0; i < 2; i++ {
		if !r.has[i] {
			continue
		}
		v := r.net[i]
		if isOpReturn(scripts[i]) {
			r.burn[i] = true
			r.trim += v
			v = 0
		}
		outs = append(outs, &wire.TxOut{Value: v, PkScript: scripts[i]})
	}
	r.outs = outs
	return r
}

// refClose: each party's output equals its balance (commit fee and anchors
// credited to the opener) minus the closing fee for the payer; an output below
// its owner's dust limit is omitted.
func refClose(gross, dust [2]int64, fee int64, payer int, scripts [2][]byte) refResult {
	r := refResult{net: gross}
	r.net[payer] -= fee
	if r.net[payer] < 0 {
		r.reason = "cannot-afford"
		return r
	}
	for i := 0; i < 2; i++ {
		if r.net[i] >= dust[i] {
			r.has[i] = true
			r.outs = append(r.outs, &wire.TxOut{Value: r.net[i], PkScript: scripts[i]})
		} else {
			r.trim += r.net[i]
		}
	}
	if len(r.outs) == 0 {
		r.reason = "no-outputs"
		return r
	}
	r.ok = true
	return r
}

func (r refResult) shape() string {
	if !r.ok {
		return "refuse:" + r.reason
	}
	s := ""
	for i := 0; i < 2; i++ {
		switch {
		case r.burn[i]:
			s += "r" // OP_RETURN output of value zero
		case r.has[i]:
			s += "o"
		case r.net[i] == 0:
			s += "z"
		default:
			s += "t" // trimmed non-zero dust
		}
	}
	return s
}

// tie marks the cells in which both outputs are present with the same value
// (BIP69 then orders them by script bytes: "<" A's script sorts first, ">" B's).
func (r refResult) tie() string {
	if !r.ok || len(r.outs) != 2 || r.outs[0].Value != r.outs[1].Value {
		return ""
	}
	if bytes.Compare(r.outs[0].PkScript, r.outs[1].PkScript) < 0 {
		return "=<"
	}
	return "=>"
}

func outKey(o *wire.TxOut) string { return fmt.Sprintf("%d:%x", o.Value, o.PkScript) }

func outsKey(outs []*wire.TxOut) string {
	var s []string
	for _, o := range outs {
		s = append(s, outKey(o))
	}
	sort.Strings(s)
	return strings.Join(s, ",")
}

func txBytesFull(tx *wire.MsgTx) []byte {
	var b bytes.Buffer
	_ = tx.Serialize(&b)
	return b.Bytes()
}

func txBytesNoWitness(tx *wire.MsgTx) []byte {
	var b bytes.Buffer
	_ = tx.SerializeNoWitness(&b)
	return b.Bytes()
}

// checkTxAgainstRef checks the clauses that concern one unsigned closing
// transaction: it spends exactly the funding outpoint, its outputs are exactly
// the reference outputs, and value is conserved: outputs + fee + trimmed dust ==
// what the two parties own, which never exceeds the capacity (and is short of it
// by at most the one satoshi lost to msat truncation).
func (p *pair) checkTxAgainstRef(tx *wire.MsgTx, ref refResult, fee int64, wantSeq *uint32, wantLock *uint32) (string, string) {
	if len(tx.TxIn) != 1 || tx.TxIn[0].PreviousOutPoint != p.outpoint {
		return "tx-wrong-input", fmt.Sprintf("closing tx does not spend exactly the funding outpoint: %d inputs", len(tx.TxIn))
	}
	if got, want := outsKey(tx.TxOut), outsKey(ref.outs); got != want {
		return "tx-output-mismatch", fmt.Sprintf("closing tx outputs [%s] differ from the reference [%s] (net A=%d B=%d, dust A=%d B=%d, fee=%d)", got, want, ref.net[0], ref.net[1], p.dust[0], p.dust[1], fee)
	}
	var sum int64
	for _, o := range tx.TxOut {
		sum += o.Value
	}
	owned := p.gross[0] + p.gross[1]
	if sum+fee > p.capacity {
		return "tx-exceeds-capacity", fmt.Sprintf("outputs %d + fee %d exceed capacity %d", sum, fee, p.capacity)
	}
	if sum+fee+ref.trim != owned || p.capacity-owned < 0 || p.capacity-owned > 1 {
		return "tx-value-not-conserved", fmt.Sprintf("outputs %d + fee %d + trimmed %d != owned %d (capacity %d)", sum, fee, ref.trim, owned, p.capacity)
	}
	if wantSeq != nil && tx.TxIn[0].Sequence != *wantSeq {
		return "tx-sequence", fmt.Sprintf("sequence %#x, requested %#x", tx.TxIn[0].Sequence, *wantSeq)
	}
	if wantLock != nil && tx.LockTime != *wantLock {
		return "tx-locktime", fmt.Sprintf("locktime %d, requested %d", tx.LockTime, *wantLock)
	}
	return "", ""
}

// engineVerdict runs the script interpreter on the completed transaction
// against the harness-derived funding output.
func (p *pair) engineVerdict(tx *wire.MsgTx) error {
	fetcher := txscript.NewCannedPrevOutputFetcher(p.fundOut.PkScript, p.fundOut.Value)
	hashes := txscript.NewTxSigHashes(tx, fetcher)
	vm, err := txscript.NewEngine(p.fundOut.PkScript, tx, 0, txscript.StandardVerifyFlags, nil, hashes, p.fundOut.Value, fetcher)
	if err != nil {
		return err
	}
	return vm.Execute()
}

// verifyECDSA checks a party's signature over the closing tx independently of
// lnd (BIP143 sighash of the 2-of-2 witness script, SIGHASH_ALL).
func (p *pair) verifyECDSA(tx *wire.MsgTx, sig input.Signature, party int) error {
	es, ok := sig.(*ecdsa.Signature)
	if !ok {
		parsed, err := ecdsa.ParseDERSignature(sig.Serialize())
		if err != nil {
			return fmt.Errorf("not an ECDSA signature: %T", sig)
		}
		es = parsed
	}
	fetcher := txscript.NewCannedPrevOutputFetcher(p.fundOut.PkScript, p.fundOut.Value)
	hashes := txscript.NewTxSigHashes(tx, fetcher)
	h, err := txscript.CalcWitnessSigHash(p.witScript, hashes, txscript.SigHashAll, tx, 0, p.fundOut.Value)
	if err != nil {
		return err
	}
	if !es.Verify(h, p.pub[party]) {
		return fmt.Errorf("signature does not verify under the multisig key of party %c", 'A'+party)
	}
	return nil
}

func partyName(i int) string { return string(rune('A' + i)) }
