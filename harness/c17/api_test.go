// api_test.go: the full-channel lattice. One case = one fee proposal on one pair:
// CreateCloseProposal on both sides, then CompleteCooperativeClose on both sides,
// judged against the reference model.
package c17

import (
	"bytes"
	"fmt"

	"github.com/btcsuite/btcd/btcutil/v2"
	"github.com/btcsuite/btcd/wire/v2"
	"github.com/lightningnetwork/lnd/input"
	"github.com/lightningnetwork/lnd/lntypes"
	"github.com/lightningnetwork/lnd/lnwallet"
	"github.com/lightningnetwork/lnd/lnwire"
	"github.com/lightningnetwork/lnd/peer"
)

// ApiCase is one point of the full-channel lattice.
type ApiCase struct {
	Fee int64 `json:"fee"`
	// Payer: -1 = default (legacy flow: the opener pays), 0/1 = WithCustomPayer
	// (RBF flow: the closer pays), together with WithCustomSequence(MaxRBF).
	Payer int `json:"payer"`
	// LockTime (RBF flow only): >0 adds WithCustomLockTime on both sides; 0 is
	// passed the way the RBF state machine does (closer omits it, closee passes 0).
	LockTime uint32 `json:"lock_time"`
	SA       string `json:"script_a"`
	SB       string `json:"script_b"`
}

type tracer func(f string, a ...any)

func (t tracer) log(f string, a ...any) {
	if t != nil {
		t(f, a...)
	}
}

// verdict of one case.
type verdict struct {
	class string // outcome class (always set)
	cell  string // lattice cell for distinct_nontrivial ("" = vacuous)
	sig   string // violation signature ("" = held)
	what  string
}

func (c ApiCase) flow() string {
	if c.Payer >= 0 {
		return "rbf"
	}
	return "legacy"
}

func party(me, who int) lntypes.ChannelParty {
	if me == who {
		return lntypes.Local
	}
	return lntypes.Remote
}

// feeClass abstracts a fee relative to the payer's balance and dust limit.
func feeClass(fee, gross, dust int64) string {
	net := gross - fee
	switch {
	case fee == 0:
		return "zero"
	case net < 0:
		return "above-balance"
	case net == 0:
		return "eq-balance"
	case net < dust-1:
		return "net-below-dust"
	case net == dust-1:
		return "net-dust-1"
	case net == dust:
		return "net-eq-dust"
	case net == dust+1:
		return "net-dust+1"
	}
	return "affordable"
}

func runApi(p *pair, c ApiCase, tr tracer) verdict {
	payer := c.Payer
	if payer < 0 {
		payer = p.opener
	}
	scripts := [2][]byte{deliveryScript(c.SA, 0), deliveryScript(c.SB, 1)}
	ref := refClose(p.gross, p.dust, c.Fee, payer, scripts)
	if c.Payer >= 0 {
		// the RBF flow passes WithCustomSequence: OP_RETURN delivery scripts burn
		ref = ref.withOpReturn(scripts)
	}
	tag := fmt.Sprintf("%s/%s", p.typName, c.flow())
	v := verdict{}
	v.cell = fmt.Sprintf("api|%s|open%s|pay%s|%s|%s-%s|%s%s|%s", p.typName, partyName(p.opener), partyName(payer), c.flow(), c.SA, c.SB, ref.shape(), ref.tie(), feeClass(c.Fee, p.gross[payer], p.dust[payer]))
	fail := func(sig, f string, a ...any) verdict {
		v.sig = "api:" + sig + ":" + tag
		v.what = fmt.Sprintf(f, a...) + fmt.Sprintf(" [%s fee=%d payer=%s scripts=%s/%s gross=%v dust=%v opener=%s]", p.src.Name(), c.Fee, partyName(payer), c.SA, c.SB, p.gross, p.dust, partyName(p.opener))
		v.class = "VIOLATION:" + sig
		return v
	}
	tr.log("pair %s hist=%v stored(expected msat)=%v gross(sat)=%v dust=%v opener=%s capacity=%d", p.src.Name(), p.hist, p.storedMsat, p.gross, p.dust, partyName(p.opener), p.capacity)
	// The channel's own stored balances must be the ones the harness expects
	// (otherwise "its balance" in the oracle would mean something else).
	for i := 0; i < 2; i++ {
		snap := p.ch[i].StateSnapshot()
		if uint64(snap.LocalBalance) != p.storedMsat[i] || uint64(snap.RemoteBalance) != p.storedMsat[1-i] {
			return fail("stored-balance-mismatch", "channel %s holds local=%d remote=%d msat, harness bookkeeping says %d/%d", partyName(i), snap.LocalBalance, snap.RemoteBalance, p.storedMsat[i], p.storedMsat[1-i])
		}
	}
	tr.log("reference: ok=%v reason=%q net=%v present=%v trimmed=%d", ref.ok, ref.reason, ref.net, ref.has, ref.trim)

	// --- options per side
	var (
		opts  [2][]lnwallet.ChanCloseOpt // non-musig options
		mopts [2][]lnwallet.ChanCloseOpt // musig session option of the proposal
		musig [2]*peer.MusigChanCloser
	)
	var wantSeq, wantLock *uint32
	if c.Payer >= 0 {
		s := maxRBFSeq
		wantSeq = &s
		l := c.LockTime
		wantLock = &l
		for i := 0; i < 2; i++ {
			opts[i] = append(opts[i], lnwallet.WithCustomSequence(maxRBFSeq), lnwallet.WithCustomPayer(party(i, payer)))
			if c.LockTime > 0 || i != payer {
				opts[i] = append(opts[i], lnwallet.WithCustomLockTime(c.LockTime))
			}
		}
	}
	if p.ct.IsTaproot() {
		// Closing nonces the way peer.MusigChanCloser wires them: a fresh nonce
		// pair per attempt, each side learns the other's public nonce.
		for i := 0; i < 2; i++ {
			musig[i] = peer.NewMusigChanCloser(p.ch[i])
		}
		nA, errA := musig[0].ClosingNonce()
		nB, errB := musig[1].ClosingNonce()
		if errA != nil || errB != nil {
			return fail("musig-nonce", "ClosingNonce failed: %v %v", errA, errB)
		}
		musig[0].InitRemoteNonce(nB)
		musig[1].InitRemoteNonce(nA)
		for i := 0; i < 2; i++ {
			mo, err := musig[i].ProposalClosingOpts()
			if err != nil {
				return fail("musig-session", "ProposalClosingOpts(%s): %v", partyName(i), err)
			}
			mopts[i] = mo
		}
	}

	// --- proposals
	var (
		sigs [2]input.Signature
		txs  [2]*wire.MsgTx
		errs [2]error
	)
	for i := 0; i < 2; i++ {
		sigs[i], txs[i], _, errs[i] = p.ch[i].CreateCloseProposal(btcutil.Amount(c.Fee), scripts[i], scripts[1-i], append(append([]lnwallet.ChanCloseOpt{}, opts[i]...), mopts[i]...)...)
		if errs[i] != nil {
			tr.log("%s.CreateCloseProposal(fee=%d) -> error: %v", partyName(i), c.Fee, errs[i])
		} else {
			tr.log("%s.CreateCloseProposal(fee=%d) -> tx %x", partyName(i), c.Fee, txBytesNoWitness(txs[i]))
		}
	}
	defer func() {
		p.ch[0].ResetState()
		p.ch[1].ResetState()
	}()
	if !ref.ok {
		for i := 0; i < 2; i++ {
			if errs[i] == nil {
				return fail("built-"+ref.reason, "%s built a closing tx although the reference refuses (%s): outputs %s", partyName(i), ref.reason, outsKey(txs[i].TxOut))
			}
		}
		v.class = "refused:" + ref.reason
		return v
	}
	for i := 0; i < 2; i++ {
		if errs[i] != nil {
			return fail("honest-proposal-refused", "%s.CreateCloseProposal failed on a payable proposal: %v", partyName(i), errs[i])
		}
	}
	if !bytes.Equal(txBytesNoWitness(txs[0]), txBytesNoWitness(txs[1])) {
		return fail("tx-not-identical", "the two sides built different closing transactions: A=%x B=%x", txBytesNoWitness(txs[0]), txBytesNoWitness(txs[1]))
	}
	if sig, what := p.checkTxAgainstRef(txs[0], ref, c.Fee, wantSeq, wantLock); sig != "" {
		return fail(sig, "%s", what)
	}
	if !p.ct.IsTaproot() {
		for i := 0; i < 2; i++ {
			if err := p.verifyECDSA(txs[0], sigs[i], i); err != nil {
				return fail("sig-invalid", "%s's proposal signature: %v", partyName(i), err)
			}
		}
	}

	// --- completion on both sides, signatures taken over the wire encoding
	var closed [2]*wire.MsgTx
	for i := 0; i < 2; i++ {
		var (
			lsig, rsig input.Signature
			copts      = opts[i]
			err        error
		)
		if p.ct.IsTaproot() {
			lw := sigs[i].(*lnwallet.MusigPartialSig).ToWireSig().PartialSig
			rw := sigs[1-i].(*lnwallet.MusigPartialSig).ToWireSig().PartialSig
			var mo []lnwallet.ChanCloseOpt
			lsig, rsig, mo, err = musig[i].CombineClosingOpts(lw, rw)
			if err != nil {
				return fail("musig-combine", "CombineClosingOpts(%s): %v", partyName(i), err)
			}
			copts = append(append([]lnwallet.ChanCloseOpt{}, opts[i]...), mo...)
		} else {
			lw, e1 := lnwire.NewSigFromSignature(sigs[i])
			rw, e2 := lnwire.NewSigFromSignature(sigs[1-i])
			if e1 != nil || e2 != nil {
				return fail("sig-encode", "wire encoding of signatures failed: %v %v", e1, e2)
			}
			lsig, e1 = lw.ToSignature()
			rsig, e2 = rw.ToSignature()
			if e1 != nil || e2 != nil {
				return fail("sig-decode", "wire decoding of signatures failed: %v %v", e1, e2)
			}
		}
		closed[i], _, err = p.ch[i].CompleteCooperativeClose(lsig, rsig, scripts[i], scripts[1-i], btcutil.Amount(c.Fee), copts...)
		if err != nil {
			return fail("honest-completion-refused", "%s.CompleteCooperativeClose rejected the honest counter-signature: %v", partyName(i), err)
		}
		tr.log("%s.CompleteCooperativeClose -> %x", partyName(i), txBytesNoWitness(closed[i]))
		if !bytes.Equal(txBytesNoWitness(closed[i]), txBytesNoWitness(txs[0])) {
			return fail("completed-tx-differs", "%s completed a transaction different from the one both signed", partyName(i))
		}
		// the interpreter verdict is a function of the full serialization: run it
		// once if B's completed tx is byte-identical (witness included) to A's
		if i == 1 && bytes.Equal(txBytesFull(closed[0]), txBytesFull(closed[1])) {
			continue
		}
		if err := p.engineVerdict(closed[i]); err != nil {
			return fail("script-invalid", "%s's completed closing tx fails the script interpreter against the funding output: %v", partyName(i), err)
		}
	}
	tr.log("both completed; interpreter accepts; outputs %s", outsKey(closed[0].TxOut))
	v.class = "closed:" + ref.shape()
	return v
}
