// C17 main: plan, worker pool, determinism gate, evidence, replay.
//
// Four parts, all exhaustive within their stated bounds (no sampling):
//   pure    value lattice on CoopCloseBalance + CreateCooperativeCloseTx from both perspectives
//           (incl. the fee that leaves both parties the same amount = BIP69 tie, and OP_RETURN
//           delivery scripts in the custom-sequence mode)
//   api     CreateCloseProposal x2 + CompleteCooperativeClose x2 on real channels (all 7 types,
//           both openers, legacy and RBF options, delivery-script pairs, fee lattice incl. the
//           tie fee, OP_RETURN delivery with RBF options)
// The job lists of all families are merged proportionally (plan), so a deadline cuts the tail
// of every family, never a whole part.
//   legacy  two real chancloser.ChanCloser negotiating over all ideal-fee pairs (caps 1x/3x/exact,
//           shutdown by either party or both at once, early offer, upfront scripts, thaw height,
//           low balances with lnd's own fee estimator)
//   rbf     the two rbf_coop state machines driven event by event through fee ladders (early-offer
//           windows, crossed bumps, reconnect with fresh machines, upfront scripts, thaw height)
package c17

import (
	"encoding/json"
	"fmt"
	"os"
	"runtime"
	"runtime/debug"
	"sort"
	"strconv"
	"sync"
	"sync/atomic"
	"testing"
	"time"

	"github.com/lightningnetwork/lnd/verifmc/chanmc"
	"github.com/lightningnetwork/lnd/verifmc/evid"
)

// Replay is the artefact of one case; `bin/check C17 --replay f` re-runs it.
type Replay struct {
	Part string    `json:"part"`
	Src  *Source   `json:"source,omitempty"`
	Api  *ApiCase  `json:"api,omitempty"`
	Pure *PureCase `json:"pure,omitempty"`
	Neg  *NegCase  `json:"legacy,omitempty"`
	Rbf  *RbfCase  `json:"rbf,omitempty"`
}

type harness struct {
	run      *evid.Run
	deadline time.Time
	stopped  atomic.Bool

	evals     atomic.Int64
	perPart   *evid.Counter
	outcomes  *evid.Counter
	cells     *evid.Counter
	samples   map[string]*evid.Samples
	smu       sync.Mutex
	pairs     atomic.Int64
	herrs     atomic.Int64
	herrFirst atomic.Value
	nondet    atomic.Int64
	maxRounds atomic.Int64
	roundHist *evid.Counter
	skipped   atomic.Int64
}

func newHarness(run *evid.Run) *harness {
	return &harness{run: run, perPart: evid.NewCounter(), outcomes: evid.NewCounter(), cells: evid.NewCounter(),
		samples: map[string]*evid.Samples{}, roundHist: evid.NewCounter()}
}

func (h *harness) sample(part string, v any) {
	h.smu.Lock()
	s := h.samples[part]
	if s == nil {
		s = evid.NewSamples(3)
		h.samples[part] = s
	}
	h.smu.Unlock()
	s.Add(v)
}

func (h *harness) harnessError(err error) {
	h.herrs.Add(1)
	h.herrFirst.CompareAndSwap(nil, err.Error())
}

// safely runs f; a panic inside lnd becomes a verdict.
func safely(part string, f func() verdict) (v verdict) {
	defer func() {
		if r := recover(); r != nil {
			v = verdict{class: "VIOLATION:panic", sig: part + ":panic", what: fmt.Sprintf("panic: %v\n%s", r, debug.Stack())}
		}
	}()
	return f()
}

// runReplay executes one case on freshly built sources.
func runReplay(rp Replay, tr tracer) (verdict, error) {
	switch rp.Part {
	case "pure":
		return safely("pure", func() verdict { return runPure(*rp.Pure, tr) }), nil
	case "api", "legacy", "rbf":
		p, err := buildPair(*rp.Src)
		if err != nil {
			return verdict{}, err
		}
		defer p.Close()
		switch rp.Part {
		case "api":
			return safely("api", func() verdict { return runApi(p, *rp.Api, tr) }), nil
		case "legacy":
			return safely("legacy", func() verdict { return runNeg(p, *rp.Neg, tr, nil) }), nil
		default:
			return safely("rbf", func() verdict { return runRbf(p, *rp.Rbf, tr) }), nil
		}
	}
	return verdict{}, herr("unknown replay part %q", rp.Part)
}

// record accounts one executed case; violations pass the determinism gate first.
func (h *harness) record(rp Replay, v verdict) {
	h.evals.Add(1)
	h.perPart.Add(rp.Part)
	h.outcomes.Add(rp.Part + ":" + v.class)
	if v.cell != "" && v.sig == "" {
		h.cells.Add(v.cell)
	}
	if v.sig == "" {
		return
	}
	// determinism gate: the same case on three fresh sources must give the same verdict
	for n := 0; n < 3; n++ {
		v2, err := runReplay(rp, nil)
		if err != nil || v2.sig != v.sig {
			h.nondet.Add(1)
			fmt.Printf("INFO nondeterminism: case %+v gave %q then %q (err %v); not reported as a violation\n", rp, v.sig, v2.sig, err)
			return
		}
	}
	h.run.Violation(v.sig, v.what, rp)
}

type job struct {
	name string
	part string
	f    func(h *harness)
}

func (h *harness) expired() bool {
	if h.stopped.Load() {
		return true
	}
	if time.Now().After(h.deadline) {
		h.stopped.Store(true)
		return true
	}
	return h.run.Violations() >= 5
}

func (h *harness) runJobs(jobs []job, workers int) (done int) {
	var wg sync.WaitGroup
	var next, finished atomic.Int64
	for w := 0; w < workers; w++ {
		wg.Add(1)
		go func() {
			defer wg.Done()
			for {
				i := int(next.Add(1)) - 1
				if i >= len(jobs) || h.expired() {
					return
				}
				func() {
					defer func() {
						if r := recover(); r != nil {
							h.harnessError(fmt.Errorf("job %s panicked outside a case: %v\n%s", jobs[i].name, r, debug.Stack()))
						}
					}()
					jobs[i].f(h)
				}()
				if !h.stopped.Load() {
					finished.Add(1)
				}
			}
		}()
	}
	wg.Wait()
	return int(finished.Load())
}

// withPair builds the source, runs f, closes it. A source that cannot be built
// is a harness error (exit 2), never a silent skip.
func (h *harness) withPair(src Source, f func(p *pair)) {
	p, err := buildPair(src)
	if err != nil {
		h.harnessError(err)
		return
	}
	defer p.Close()
	h.pairs.Add(1)
	f(p)
}

func sortedKeys(m map[int64]bool) []int64 {
	var s []int64
	for k := range m {
		s = append(s, k)
	}
	sort.Slice(s, func(i, j int) bool { return s[i] < s[j] })
	return s
}

func TestC17(t *testing.T) {
	run := evid.Start("C17", "exploration")
	if rp := os.Getenv("VERIF_REPLAY"); rp != "" {
		replayFile(t, run, rp)
		return
	}
	h := newHarness(run)
	budget := 165 * time.Second
	if run.Thorough() {
		budget = 25 * time.Minute
	}
	if s := os.Getenv("VERIF_BUDGET_S"); s != "" {
		if n, err := strconv.Atoi(s); err == nil {
			budget = time.Duration(n) * time.Second
		}
	}
	h.deadline = time.Now().Add(budget)
	workers := runtime.GOMAXPROCS(0)
	if s := os.Getenv("VERIF_WORKERS"); s != "" {
		if n, err := strconv.Atoi(s); err == nil && n > 0 {
			workers = n
		}
	}
	jobs := plan(run.Thorough(), os.Getenv("VERIF_PARTS"))
	// VERIF_SEED only rotates the work assignment.
	if n := len(jobs); n > 0 {
		r := run.Seed() % n
		if r < 0 {
			r += n
		}
		jobs = append(jobs[r:], jobs[:r]...)
	}
	done := h.runJobs(jobs, workers)

	if n := h.herrs.Load(); n > 0 {
		t.Fatalf("harness errors: %d, first: %v", n, h.herrFirst.Load())
	}
	if worldViolations.Load() > 0 {
		t.Fatalf("chanmc oracles fired %d times while building sources (not a C17 verdict; run C01)", worldViolations.Load())
	}
	exhaustive := done == len(jobs) && h.nondet.Load() == 0
	caps := []string{}
	if done != len(jobs) {
		if run.Violations() >= 5 {
			caps = append(caps, "stopped after 5 distinct violations")
		} else {
			caps = append(caps, fmt.Sprintf("deadline %s: %d of %d jobs completed", budget, done, len(jobs)))
		}
	}
	if h.nondet.Load() > 0 {
		caps = append(caps, "nondeterminism_detected")
	}
	var samples []any
	for _, part := range []string{"pure", "api", "legacy", "rbf"} {
		if s := h.samples[part]; s != nil {
			samples = append(samples, s.List()...)
		}
	}
	if len(samples) == 0 {
		samples = append(samples, "none")
	}
	cov := map[string]any{
		"evaluations":         int(h.evals.Load()),
		"distinct_nontrivial": h.cells.Distinct(),
		"rule": "exhaustive enumeration of the stated lattices; an evaluation is one close attempt (both sides build, sign, complete) or one whole negotiation; " +
			"distinct_nontrivial = distinct lattice cells (part | channel type | opener | payer | flow | scripts | output shape (present/trimmed/zero/refused) | fee class) in which the full oracle ran to its end without violation",
		"samples":               samples,
		"exhaustive":            exhaustive,
		"caps_hit":              caps,
		"evaluations_per_part":  h.perPart.Map(),
		"outcome_classes":       h.outcomes.Map(),
		"channel_pairs_built":   int(h.pairs.Load()),
		"jobs":                  len(jobs),
		"jobs_completed":        done,
		"negotiation_max_msgs":  int(h.maxRounds.Load()),
		"negotiation_msgs_hist": h.roundHist.Map(),
		"workers":               workers,
	}
	run.Assumptions = append(run.Assumptions,
		"fixed key material and funding outpoint; MuSig2 nonces are random (no oracle depends on them)",
		"delivery scripts are well-formed p2wkh/p2wsh/p2tr/future-witness (wire flows) plus p2sh/p2pkh and OP_RETURN (bare and data-carrying) on the channel API and the tx builder; an OP_RETURN owner's output is judged by the BOLT 2 simple-close rule (amount zero, present iff the owner's balance reaches its dust limit), only in the custom-sequence (RBF) flow: lnd's shutdown validation refuses OP_RETURN, so the legacy and RBF state machines are not driven with it; aux/custom-channel extra outputs and custom sorters are outside the alphabet",
		"RBF state machines are driven synchronously through their ProcessEvent methods with the real message mapper; protofsm's goroutine executor, link flushing and chain notifications are replaced by the harness driver (Environment.BlockHeight = 0 as in peer.initRbfChanCloser); the driver controls when the link's flush event and a post-send event are handed in (early-offer windows) and models a reconnect as fresh machines without a link on freshly loaded channel objects (ResetState)",
		"negotiation alphabet: ideal fees in [100,700] sat (low-balance channels: [100,400] sat, or 200..500 sat/kw through lnd's SimpleCoopFeeEstimator), caps 1x / 3x / exactly the other side's ideal; the opener can afford every fee in the range",
		"upfront shutdown scripts are {none, equal to the delivery scripts}; a frozen (lease) channel is closed at {far above, exactly at} its thaw height; closes below the thaw height and mismatching upfront scripts (honest refusals) are not enumerated",
		"the RBF flow uses the harness fee estimator (absolute fee = sat/vbyte value); lnd's SimpleCoopFeeEstimator is exercised in the legacy flow only",
	)
	code := run.Finish(cov)
	if code != 0 {
		os.Exit(code)
	}
}

func replayFile(t *testing.T, run *evid.Run, path string) {
	b, err := os.ReadFile(path)
	if err != nil {
		t.Fatalf("replay: %v", err)
	}
	var art struct {
		Signature string `json:"signature"`
		Replay    Replay `json:"replay"`
	}
	if err := json.Unmarshal(b, &art); err != nil {
		t.Fatalf("replay: %v", err)
	}
	fmt.Printf("INFO replaying %s case (recorded signature %q)\n", art.Replay.Part, art.Signature)
	tr := tracer(func(f string, a ...any) { fmt.Printf("INFO "+f+"\n", a...) })
	v, err := runReplay(art.Replay, tr)
	if err != nil {
		t.Fatalf("replay: %v", err)
	}
	fmt.Printf("INFO verdict: class=%s signature=%q\n", v.class, v.sig)
	if v.sig != "" {
		run.Violation(v.sig, v.what, art.Replay)
	}
	code := run.Finish(map[string]any{"evaluations": 1, "distinct_nontrivial": 2, "rule": "replay of one recorded case", "samples": []any{art.Replay}})
	if code != 0 {
		os.Exit(code)
	}
}

var _ = chanmc.AllTypes
