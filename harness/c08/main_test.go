// C08 — driver: scenario spaces, worker subprocesses, determinism gate, evidence.
//
// Technique (DESIGN.md §3 E7 "syncnet", §4 C08): explicit enumeration of the *event
// order* of the real three-hop network. An execution is a list of events replayed on a
// fresh network inside a testing/synctest bubble:
//
//	payK      launch payment K (forced at its scheduled event count)
//	d:X>Y     deliver the oldest message of wire X>Y to Y's link
//	T         advance virtual time by one batch-ticker period (50 ms)
//	holdK     settle / cancel hold invoice K (enabled while it is in state accepted)
//	cut:AB|BC the connection drops: both wires discarded, both links stopped and
//	          re-created from disk (real syncChanStates / channel_reestablish)
//	rb        Bob's switch and links restart on the same databases
//
//	fz:X>Y    wire X>Y becomes slow: none of its messages is delivered until un:X>Y
//	un:X>Y    (default once nothing else can happen, a deviation when done earlier)
//	cb:K      (spaces with Crash) the default continuation is performed while Bob's database
//	          refuses every write transaction after the K-th one of that event, then Bob
//	          restarts from disk: "Bob's process died right after its K-th durable write".
//	          Everything Bob did after that instant is discarded with the old instance (all
//	          wires are cleared, as for rb). K ranges over a per-event-kind bound above the
//	          measured maximum of writes; a branch that finds no (K+1)-th write is a dead end
//	          (it equals "default; rb").
//	L         (spaces with LongIdle) 20 s of virtual time while nothing is deliverable: past
//	          the switch's 10 s log / 15 s ack tickers and the links' 15 s forwarding-package
//	          collector, in the middle of an execution (the terminal drain uses the same event)
//
// Dimensions added by the axis audit (c08AuditSpaces; see the fields of c08Scn): Bob's two
// channels in ONE database behind the crashdb wrapper (the fixture's one file per channel end
// turns every cross-channel forwarding-package ack into a no-op), crash points, the
// configuration options RejectHTLC / MaxFeeExposure, update_fail_malformed_htlc produced by
// the receiver or by Bob himself (which also makes incoming and outgoing HTLC ids differ),
// two HTLCs with equal hash and expiry but different amounts, amounts with a sub-satoshi
// part, and the mid-run long pause.
//
// Dimensions added after the round-e misses: (a) the forwarding POLICY of Bob (inbound fee
// or discount on the incoming channel, proportional outbound fee; c08Policy) with payments
// that offer exactly the demanded fee or one millisatoshi less (c08Pay.FeeDelta), judged by
// the fee rule evaluated in big integers on both sides (forwarded => covered; failed with
// fee_insufficient => not covered); (b) the ORDER in which Bob's two peers reconnect after
// a restart or crash (SlowRestart), which decides whether a forwarding package replayed by
// the incoming link reaches the switch's policy check or ends in unknown_next_peer; (c) the
// slow re-establishment (SlowReest) on the INCOMING connection of a payment, so that the
// response waits in the incoming link's volatile mailbox while the outgoing channel
// completes, crossed with the long pause and a restart (gc/...@incoming).
//
// The default continuation is "launch a due payment; else deliver the globally oldest
// deliverable message; else tick until two ticks changed nothing; else unfreeze; else
// resolve an accepted hold invoice; else stop". Anything else is a deviation: a
// *schedule deviation* (out-of-order delivery, early tick, early hold resolution, fz, early
// un) or a *fault* (cut, rb). A space fixes a payment batch and the budgets
// (Dev schedule deviations, Faults faults, Total of both); the world itself enforces the
// budgets through Enabled(), the shared explore engine (one worker goroutine inside the
// bubble, MaxDeviations=-1) then enumerates *every* schedule within them, de-duplicating
// canonical states. Large spaces are sharded over worker processes by (slow wire, fault kind).
//
// Time. All timers of the fixture live on the bubble's virtual clock, which only moves
// when the explorer sleeps: during "T" (one batch-ticker period), at the end of a fault
// event (re-alignment to the next explorer instant) and in the terminal drain (20 s steps,
// past the switch's 10/15 s tickers). Handlers themselves take no virtual time (the
// fixture's kvdb.Batch degrades to Update because *channeldb.DB is not a BatchDB), so after
// synctest.Wait() the system is quiescent in the strong sense: nothing happens until the
// next explorer event. Explorer instants are t0 + 25 ms + k*50 ms; the initial links tick at
// t0 + k*50 ms, links re-created by a fault tick at explorer instants.
//
// Canonical key ("same key => same futures"): every commitment either end of both
// channels holds (heights, balances, HTLC sets by payment), pending-update counters,
// circuit-map counts of the three switches, payment results, invoice states, the four
// wires (kind, htlc id, payment), forwarding-package progress on disk (completed packages
// excepted: when the background collector deletes them is irrelevant garbage), the explorer's
// own counters (faults used, idle ticks, payments not yet launched, per-payment
// bookkeeping of the oracle). Dropped: signatures, revocation secrets, channel ids and
// payment ids (random or functions of the rest), mailbox contents (re-derivable from
// circuits + forwarding packages + channel state, which are in the key) and the absolute
// virtual time (ticker phases relative to explorer instants are fixed, see above).
//
// Determinism. (1) gate: fixed event lists are replayed 20x (4 fresh processes x 5
// networks) and must give byte-identical observation traces, else the run stops without a
// verdict; (2) self-check of the exploration: the key reached by every history is
// remembered and every later replay of that history must reach the same key at every step
// (replayed_steps_key_checked / replay_divergences in the evidence); (3) every candidate
// violation is replayed 3x in fresh processes and reported only if all three agree. Two
// sources of scheduler dependence were found this way and are owned: the add/response race
// in the mailbox (world_test.go ownRace) and the deletion time of completed forwarding
// packages (excluded from the key).
package htlcswitch

import (
	"bufio"
	"crypto/sha256"
	"encoding/hex"
	"encoding/json"
	"fmt"
	"os"
	"os/exec"
	"path/filepath"
	"runtime"
	"sort"
	"strconv"
	"strings"
	"sync"
	"syscall"
	"testing"
	"testing/synctest"
	"time"

	"github.com/btcsuite/btclog/v2"
	"github.com/lightningnetwork/lnd/verifmc/evid"
	"github.com/lightningnetwork/lnd/verifmc/explore"
)

// ---------------------------------------------------------------------------------
// worker protocol

type c08Job struct {
	Mode string   `json:"mode"` // explore | replay
	Scn  c08Scn   `json:"scn"`
	Hist []string `json:"hist,omitempty"`
	Reps int      `json:"reps,omitempty"`
	// BudgetS: wall-clock budget of an exploration (seconds).
	BudgetS float64 `json:"budget_s,omitempty"`
	Verbose bool    `json:"verbose,omitempty"`
	Out     string  `json:"out"`
}

type c08FoundViol struct {
	Sig  string   `json:"sig"`
	What string   `json:"what"`
	Hist []string `json:"hist"`
}

type c08Result struct {
	Mode string `json:"mode"`
	Name string `json:"name"`
	// explore
	States       int64          `json:"states"`
	Transitions  int64          `json:"transitions"`
	Replays      int64          `json:"replays"`
	ReplaySteps  int64          `json:"replay_steps"`
	Terminals    int64          `json:"terminals"`
	MaxDepth     int            `json:"max_depth"`
	Exhaustive   bool           `json:"exhaustive"`
	CapHit       string         `json:"cap_hit,omitempty"`
	Outcomes     map[string]int `json:"outcomes,omitempty"`
	Viols        []c08FoundViol `json:"viols,omitempty"`
	Sample       []string       `json:"sample,omitempty"`
	Recheck      int            `json:"recheck"`
	StepsChecked int64          `json:"steps_checked"`
	Divergences  int64          `json:"divergences"`
	DivergeAt    []string       `json:"diverge_at,omitempty"`
	RecheckBad   int            `json:"recheck_bad"`
	Dead         []string       `json:"dead,omitempty"`
	Skipped      string         `json:"skipped,omitempty"`
	WallS        float64        `json:"wall_s"`
	// crash enumeration (spaces with Crash): executions in which Bob's database refused a
	// write, cb:k branches that found no further write (dead ends), crashes at the largest
	// enumerated k, measured maximum of Bob's write transactions per event kind
	Crashes        int              `json:"crashes,omitempty"`
	NoopCrashes    int              `json:"noop_crashes,omitempty"`
	CrashSaturated int              `json:"crash_saturated,omitempty"`
	MaxWrites      map[string]int64 `json:"max_writes,omitempty"`
	// replay
	Traces  []string    `json:"traces,omitempty"` // one observation-trace hash per repetition
	Obs     []string    `json:"obs,omitempty"`    // observation trace of the first repetition
	RViols  [][]c08Viol `json:"rviols,omitempty"`
	Outcome []string    `json:"outcome,omitempty"`
	AllObs  [][]string  `json:"all_obs,omitempty"` // debugging aid (VERIF_C08_ALLOBS)
}

func c08Wall() float64 {
	var tv syscall.Timeval
	_ = syscall.Gettimeofday(&tv)
	return float64(tv.Sec) + float64(tv.Usec)/1e6
}

// c08Adapter makes a world an explore.World and collects per-execution results.
type c08Adapter struct {
	*c08World
	res *c08Result
	mu  *sync.Mutex
	// determinism self-check of the exploration: the canonical key reached by a
	// history is remembered (hash -> hash); every later replay of that history, at every
	// step, must reach the same key.
	hk *map[[16]byte][16]byte
	hh [16]byte
}

// c08KeyDebug (VERIF_C08_KEYDEBUG=1) keeps the full keys so that a divergence can be shown.
var c08KeyDebug map[[16]byte]string

func (a *c08Adapter) checkStep(act string) {
	h := sha256.New()
	h.Write(a.hh[:])
	h.Write([]byte(act))
	copy(a.hh[:], h.Sum(nil))
	key := a.c08World.Key()
	k := sha256.Sum256([]byte(key))
	var kk [16]byte
	copy(kk[:], k[:16])
	a.mu.Lock()
	defer a.mu.Unlock()
	a.res.StepsChecked++
	if old, ok := (*a.hk)[a.hh]; ok {
		if old != kk {
			a.res.Divergences++
			if len(a.res.DivergeAt) < 3 {
				d := strings.Join(a.c08World.hist, " ")
				if c08KeyDebug != nil {
					d += "\n   first: " + c08KeyDebug[a.hh] + "\n   now:   " + key
				}
				a.res.DivergeAt = append(a.res.DivergeAt, d)
			}
		}
		return
	}
	(*a.hk)[a.hh] = kk
	if strings.HasPrefix(act, "cb:") {
		// first execution of this history: account for the crash branch
		if a.c08World.noop {
			a.res.NoopCrashes++
		} else {
			a.res.Crashes++
			a.res.CrashSaturated += a.c08World.crashSaturated
			a.c08World.crashSaturated = 0
		}
	}
	if c08KeyDebug != nil {
		c08KeyDebug[a.hh] = key
	}
}

func (a *c08Adapter) Terminal() {
	a.c08World.Terminal()
	a.collect(true)
}

func (a *c08Adapter) collect(terminal bool) {
	a.mu.Lock()
	defer a.mu.Unlock()
	w := a.c08World
	if terminal {
		for k, n := range w.maxWrites {
			if a.res.MaxWrites == nil {
				a.res.MaxWrites = map[string]int64{}
			}
			if n > a.res.MaxWrites[k] {
				a.res.MaxWrites[k] = n
			}
		}
	}
	if terminal && w.dead == "" && !w.noop {
		a.res.Outcomes[w.outcome()]++
		if a.res.Sample == nil && len(w.hist) > 10 {
			a.res.Sample = append([]string{}, w.hist...)
		}
	}
	if w.dead != "" && w.dead != "panic" {
		if len(a.res.Dead) < 5 {
			a.res.Dead = append(a.res.Dead, w.dead+" @ "+strings.Join(w.hist, " "))
		}
	}
	for _, v := range w.viols {
		dup := false
		for _, f := range a.res.Viols {
			if f.Sig == v.Sig {
				dup = true
			}
		}
		if !dup && len(a.res.Viols) < 20 {
			a.res.Viols = append(a.res.Viols, c08FoundViol{v.Sig, v.What, append([]string{}, w.hist...)})
		}
	}
	w.viols = nil
}

func (a *c08Adapter) Do(act string) error {
	err := a.c08World.Do(act)
	if err == nil {
		a.checkStep(act)
	}
	if len(a.c08World.viols) > 0 || a.c08World.dead != "" {
		a.collect(false)
	}
	return err
}

func (a *c08Adapter) Close() { a.c08World.Close() }

func c08TraceHash(obs []string) string {
	h := sha256.New()
	for _, o := range obs {
		h.Write([]byte(o))
		h.Write([]byte{0})
	}
	return hex.EncodeToString(h.Sum(nil)[:8])
}

// c08RunHist replays one history on a fresh network and drains to the terminal state.
func c08RunHist(t *testing.T, scn c08Scn, hist []string, dir string, info func(string)) (*c08World, error) {
	w, err := newC08World(t, scn, dir, info)
	if err != nil {
		if w != nil {
			w.Close()
		}
		return nil, err
	}
	for i, a := range hist {
		if w.dead != "" {
			break
		}
		if err := w.Do(a); err != nil {
			w.Close()
			return nil, fmt.Errorf("history diverged at step %d: %v", i, err)
		}
	}
	// default continuation to the end
	for i := 0; i < 400 && w.dead == ""; i++ {
		en := w.Enabled()
		if len(en) == 0 {
			break
		}
		if err := w.Do(en[0]); err != nil {
			w.Close()
			return nil, err
		}
	}
	w.Terminal()
	return w, nil
}

func c08Worker(t *testing.T) {
	b, err := os.ReadFile(os.Getenv("VERIF_C08_JOB"))
	if err != nil {
		fmt.Printf("worker: %v\n", err)
		os.Exit(3)
	}
	var job c08Job
	if err := json.Unmarshal(b, &job); err != nil {
		fmt.Printf("worker: %v\n", err)
		os.Exit(3)
	}
	start := c08Wall()
	scratch := os.Getenv("VERIF_SCRATCH")
	if scratch == "" {
		scratch = os.TempDir()
	}
	base, _ := os.MkdirTemp(scratch, "c08w")
	res := &c08Result{Mode: job.Mode, Name: job.Scn.Name, Outcomes: map[string]int{}}
	finish := func() {
		res.WallS = c08Wall() - start
		ob, _ := json.Marshal(res)
		_ = os.WriteFile(job.Out+".tmp", ob, 0o644)
		_ = os.Rename(job.Out+".tmp", job.Out)
		_ = os.RemoveAll(base)
		os.Exit(0)
	}
	synctest.Test(t, func(t *testing.T) {
		nDir := 0
		newDir := func() string {
			nDir++
			return filepath.Join(base, strconv.Itoa(nDir))
		}
		switch job.Mode {
		case "replay":
			var info func(string)
			for r := 0; r < job.Reps; r++ {
				info = nil
				if job.Verbose && r == 0 {
					info = func(s string) { fmt.Printf("INFO %s\n", s) }
					lg := btclog.NewSLogger(btclog.NewDefaultHandler(c08LndLog{}, btclog.WithNoTimestamp()))
					lg.SetLevel(btclog.LevelInfo)
					if os.Getenv("VERIF_C08_LNDLOG") == "debug" {
						lg.SetLevel(btclog.LevelDebug)
					}
					UseLogger(lg)
				} else {
					DisableLog()
				}
				w, err := c08RunHist(t, job.Scn, job.Hist, newDir(), info)
				if err != nil {
					res.Dead = append(res.Dead, err.Error())
					res.Traces = append(res.Traces, "error")
					res.RViols = append(res.RViols, nil)
					res.Outcome = append(res.Outcome, "error")
					continue
				}
				if w.dead != "" {
					res.Dead = append(res.Dead, w.dead)
				}
				res.Traces = append(res.Traces, c08TraceHash(w.obs))
				if r == 0 {
					res.Obs = append([]string{}, w.obs...)
				}
				if os.Getenv("VERIF_C08_ALLOBS") != "" {
					res.AllObs = append(res.AllObs, append([]string{}, w.obs...))
				}
				res.RViols = append(res.RViols, append([]c08Viol{}, w.viols...))
				res.Outcome = append(res.Outcome, w.outcome())
				w.Close()
			}
		case "explore":
			// probe: a space that needs a seam this tree does not offer is skipped,
			// visibly, instead of being reported as a harness failure
			if pw, perr := newC08World(t, job.Scn, newDir(), nil); perr != nil && strings.Contains(perr.Error(), "SKIP:") {
				if pw != nil {
					pw.Close()
				}
				res.Skipped = perr.Error()
				finish()
			} else if pw != nil {
				pw.Close()
			}
			var mu sync.Mutex
			hk := map[[16]byte][16]byte{}
			if os.Getenv("VERIF_C08_KEYDEBUG") != "" {
				c08KeyDebug = map[[16]byte]string{}
			}
			deadline := start + job.BudgetS
			var firstTerminal []string
			r := explore.Run(explore.Options{
				New: func() (explore.World, error) {
					w, err := newC08World(t, job.Scn, newDir(), nil)
					if err != nil {
						if w != nil {
							w.Close()
						}
						return nil, err
					}
					return &c08Adapter{c08World: w, res: res, mu: &mu, hk: &hk}, nil
				},
				MaxDeviations: -1, // the world enforces the budgets itself
				Workers:       1,
				Stop:          func() bool { return job.BudgetS > 0 && c08Wall() > deadline },
			}, func(hist []string, v any) {
				mu.Lock()
				msg := fmt.Sprint(v)
				if strings.Contains(msg, "replay diverged") || strings.Contains(msg, "is not enabled here") {
					// a recorded history could not be replayed: hidden nondeterminism
					res.Divergences++
					if len(res.DivergeAt) < 3 {
						res.DivergeAt = append(res.DivergeAt, c08Short(msg)+" @ "+strings.Join(hist, " "))
					}
				} else if len(res.Dead) < 5 {
					res.Dead = append(res.Dead, fmt.Sprintf("panic in explorer: %v @ %v", c08Short(msg), hist))
				}
				mu.Unlock()
			})
			res.States, res.Transitions, res.Replays, res.ReplaySteps = r.States, r.Transitions, r.Replays, r.ReplaySteps
			res.Terminals, res.MaxDepth, res.Exhaustive, res.CapHit = r.Terminals, r.MaxDepth, r.Exhaustive, r.CapHit
			firstTerminal = res.Sample
			// in-process determinism re-check: the first terminal history twice more
			if firstTerminal != nil {
				var hs []string
				for i := 0; i < 2; i++ {
					w, err := c08RunHist(t, job.Scn, firstTerminal, newDir(), nil)
					if err != nil {
						hs = append(hs, "error:"+err.Error())
						continue
					}
					hs = append(hs, c08TraceHash(w.obs))
					w.Close()
				}
				res.Recheck = 1
				if hs[0] != hs[1] {
					res.RecheckBad = 1
				}
			}
		}
		finish()
	})
	finish()
}

type c08LndLog struct{}

func (c08LndLog) Write(p []byte) (int, error) {
	for _, l := range strings.Split(strings.TrimRight(string(p), "\n"), "\n") {
		if len(l) > 260 {
			l = l[:260] + "..."
		}
		fmt.Printf("INFO       lnd| %s\n", l)
	}
	return len(p), nil
}

// ---------------------------------------------------------------------------------
// parent side

type c08Pool struct {
	self    string
	scratch string
	n       int
	mu      sync.Mutex
}

func (p *c08Pool) run(job c08Job, timeout time.Duration, forward bool) (*c08Result, error) {
	p.mu.Lock()
	p.n++
	id := p.n
	p.mu.Unlock()
	jf := filepath.Join(p.scratch, fmt.Sprintf("job%d.json", id))
	job.Out = filepath.Join(p.scratch, fmt.Sprintf("out%d.json", id))
	jb, _ := json.Marshal(job)
	if err := os.WriteFile(jf, jb, 0o644); err != nil {
		return nil, err
	}
	defer os.Remove(jf)
	defer os.Remove(job.Out)
	cmd := exec.Command(p.self, "-test.run", "^TestC08$", "-test.count=1", "-test.timeout", "6h")
	cmd.Env = append(os.Environ(), "VERIF_C08_MODE=worker", "VERIF_C08_JOB="+jf, "GOMAXPROCS="+c08WorkerProcs())
	out, err := cmd.StdoutPipe()
	if err != nil {
		return nil, err
	}
	cmd.Stderr = cmd.Stdout
	if err := cmd.Start(); err != nil {
		return nil, err
	}
	var tail []string
	done := make(chan struct{})
	go func() {
		defer close(done)
		sc := bufio.NewScanner(out)
		sc.Buffer(make([]byte, 1<<20), 1<<20)
		for sc.Scan() {
			l := sc.Text()
			if forward && strings.HasPrefix(l, "INFO ") {
				fmt.Println(l)
			}
			tail = append(tail, l)
			if len(tail) > 60 {
				tail = tail[1:]
			}
		}
	}()
	timer := time.AfterFunc(timeout, func() { _ = cmd.Process.Kill() })
	<-done
	werr := cmd.Wait()
	timer.Stop()
	rb, rerr := os.ReadFile(job.Out)
	if rerr != nil {
		return nil, fmt.Errorf("worker produced no result (%v): %s", werr, strings.Join(tail, "\n"))
	}
	var res c08Result
	if err := json.Unmarshal(rb, &res); err != nil {
		return nil, err
	}
	return &res, nil
}

func c08WorkerProcs() string {
	if v := os.Getenv("VERIF_C08_WPROCS"); v != "" {
		return v
	}
	return "2"
}

func c08Parallel() int {
	if v, err := strconv.Atoi(os.Getenv("VERIF_C08_PAR")); err == nil && v > 0 {
		return v
	}
	n := runtime.NumCPU() - 2
	if n < 2 {
		n = 2
	}
	if n > 14 {
		n = 14
	}
	return n
}

// c08Spaces: the enumerated scenario spaces of a tier, most expensive first.
//
//	base     every schedule with at most ONE deviation of any kind (out-of-order
//	         delivery, early tick, early hold resolution, slow wire, cut, restart)
//	deep     at most TWO deviations of any kind, up to two of them faults
//	product  one slow wire (fz ... un) combined with one fault at any later or
//	         earlier point; sharded by (wire, fault kind)
//	linkreject  the outgoing link (not the switch) rejects a forwarded Add; base budget
//	expiry   an Add expires in the outgoing mailbox during a slow re-establishment
//	         (cut:BC), then the incoming link restarts (cut:AB)
func c08Spaces(thorough bool) []c08Scn {
	const (
		sat      = 1000
		belowMin = 4 * sat           // below the forwarding policy's MinHTLCOut (5 sat)
		polMin   = 5 * sat           // exactly the policy minimum
		dustLo   = 3000 * sat        // dust on every commitment
		dustMid  = 4600 * sat        // dust on the receiver-side commitments only (asymmetric dust limits)
		nonDust  = 20000 * sat       // an output on every commitment
		large    = 100_000_000 * sat // 1 BTC
	)
	var out, deeps []c08Scn
	base := func(name string, pays ...c08Pay) {
		out = append(out, c08Scn{Name: "base/" + name, Pays: pays, Dev: 1, Faults: 1, Total: 1, Freeze: true})
	}
	deep := func(name string, pays ...c08Pay) {
		// the largest single jobs: started first (see the end of this function)
		deeps = append(deeps, c08Scn{Name: "deep/" + name, Pays: pays, Dev: 2, Faults: 2, Total: 2, Freeze: true})
	}
	product := func(name string, wires []string, pays ...c08Pay) {
		faults := []string{"rb", "cut:AB", "cut:BC"}
		if !thorough {
			// the restart is the fault that loses Bob's in-memory state; the cut
			// products are left to the thorough tier
			faults = faults[:1]
		}
		for _, f := range faults {
			for _, wn := range wires {
				out = append(out, c08Scn{Name: fmt.Sprintf("product/%s/fz=%s/fault=%s", name, wn, f), Pays: pays,
					Dev: 1, Faults: 1, Total: 2, Freeze: true, OnlyFreeze: true,
					FaultKinds: []string{f}, FreezeWires: []string{wn}})
			}
		}
	}
	allWires := c08WireName[:]
	pname := func(pays ...c08Pay) string {
		var d, k, a, at []string
		for _, p := range pays {
			d = append(d, p.Dir)
			k = append(k, p.Kind)
			as := strconv.FormatInt(p.Amt/sat, 10)
			if r := p.Amt % sat; r != 0 {
				as += fmt.Sprintf(".%03d", r) // a sub-satoshi amount
			}
			if p.HashOf > 0 {
				as += fmt.Sprintf("=h%d", p.HashOf-1)
			}
			if p.FeeDelta != 0 {
				as += fmt.Sprintf("(fee%+d)", p.FeeDelta)
			}
			a = append(a, as)
			at = append(at, strconv.Itoa(p.At))
		}
		return fmt.Sprintf("%dp/%s/%s/%s/at%s", len(pays), strings.Join(d, "+"), strings.Join(k, "+"), strings.Join(a, "+"), at[len(at)-1])
	}

	// ---- product spaces (two payments, slow wire x fault) --------------------------
	type pair struct{ k0, k1 string }
	two := func(d0, d1 string, pr pair, a1 int64, at int) []c08Pay {
		return []c08Pay{{Dir: d0, Amt: nonDust, Kind: pr.k0, At: 0}, {Dir: d1, Amt: a1, Kind: pr.k1, At: at}}
	}
	if !thorough {
		ps := two("AC", "AC", pair{"valid", "valid"}, nonDust, 6)
		product(pname(ps...), allWires, ps...)
	} else {
		for _, dirs := range [][2]string{{"AC", "AC"}, {"AC", "CA"}, {"CA", "AC"}} {
			for _, pr := range []pair{{"valid", "valid"}, {"holdsettle", "valid"}, {"valid", "unknown"}, {"holdcancel", "valid"}} {
				if dirs[0] == "CA" && pr.k0 != pr.k1 && pr.k0 != "holdsettle" {
					continue // CA+AC: valid+valid and holdsettle+valid only
				}
				ats := []int{6}
				if pr.k0 == "valid" && pr.k1 == "valid" && dirs[0] == "AC" && dirs[1] == "AC" {
					ats = []int{0, 6, 14}
				}
				for _, at := range ats {
					ps := two(dirs[0], dirs[1], pr, nonDust, at)
					product(pname(ps...), allWires, ps...)
				}
			}
		}
	}

	nProduct := len(out)

	// ---- single payments ------------------------------------------------------------
	kinds := []string{"valid", "unknown", "wrongamt", "holdsettle", "holdcancel"}
	for _, dir := range []string{"AC", "CA"} {
		for _, k := range kinds {
			for _, a := range []int64{dustLo, dustMid, nonDust, large} {
				p := c08Pay{Dir: dir, Amt: a, Kind: k, At: 0}
				twoAmts := a == dustLo || a == nonDust
				switch {
				case thorough && twoAmts && k != "wrongamt":
					deep(pname(p), p)
				case thorough:
					base(pname(p), p)
				case k == "valid" && (dir == "AC" || twoAmts):
					base(pname(p), p)
				case (k == "unknown" || k == "holdsettle") && twoAmts && (dir == "AC" || a == nonDust):
					base(pname(p), p)
				case a == nonDust:
					base(pname(p), p)
				}
			}
		}
		for _, a := range []int64{belowMin, polMin} {
			p := c08Pay{Dir: dir, Amt: a, Kind: "valid", At: 0}
			if thorough {
				deep(pname(p), p)
			} else {
				base(pname(p), p)
			}
		}
	}

	// ---- two payments, one deviation ---------------------------------------------------
	pairs := []pair{{"valid", "valid"}, {"valid", "unknown"}, {"holdsettle", "valid"}, {"holdcancel", "valid"}}
	ats := []int{0, 6, 14}
	dirsList := [][2]string{{"AC", "AC"}, {"AC", "CA"}}
	if thorough {
		pairs = append(pairs, pair{"unknown", "unknown"}, pair{"holdsettle", "holdcancel"}, pair{"wrongamt", "valid"}, pair{"holdsettle", "holdsettle"})
		ats = []int{0, 3, 6, 14}
		dirsList = append(dirsList, [2]string{"CA", "AC"}, [2]string{"CA", "CA"})
	}
	for _, dirs := range dirsList {
		for pi, pr := range pairs {
			if dirs[0] == "CA" && dirs[1] == "CA" && pi > 2 {
				continue // CA+CA mirrors AC+AC: the first three pairs only
			}
			for _, at := range ats {
				for _, a1 := range []int64{nonDust, dustLo} {
					if a1 == dustLo && (at != 6 || (!thorough && pr.k0 != "valid")) {
						continue
					}
					if !thorough && at == 14 && (pr.k0 != "valid" || pr.k1 != "valid") {
						continue
					}
					ps := two(dirs[0], dirs[1], pr, a1, at)
					base(pname(ps...), ps...)
				}
			}
		}
	}
	// ---- Bob lacks outgoing liquidity: he must fail back, nothing is ever committed ----
	for _, bc := range []int64{25_000, 2_000_000} {
		for _, k := range []string{"valid", "holdsettle"} {
			if !thorough && (bc != 25_000 || k != "valid") {
				continue
			}
			p := c08Pay{Dir: "AC", Amt: nonDust, Kind: k, At: 0}
			if bc > 25_000 {
				p.Amt = 2_000_000 * sat
			}
			sc := c08Scn{Name: fmt.Sprintf("base/%s/bobBC=%d", pname(p), bc), Pays: []c08Pay{p}, Dev: 1, Faults: 1, Total: 1, Freeze: true, BobBCSat: bc}
			if thorough {
				sc.Name = "deep" + sc.Name[4:]
				sc.Dev, sc.Faults, sc.Total = 2, 2, 2
			}
			out = append(out, sc)
		}
	}
	// ---- rejection at the outgoing LINK (mailbox.FailAdd), then a restart of the
	// incoming link: a replayed Add must not be forwarded a second time -------------------
	// (a) two payments launched together; each fits Bob->Carol alone, not both: the
	// second AddHTLC fails in the link. The first one is failed by Carol / cancelled, so
	// the bandwidth is back when the incoming link restarts and the invoice of the second
	// is still open.
	firsts := []string{"unknown"}
	if thorough {
		firsts = []string{"unknown", "holdcancel", "valid"}
	}
	for _, k0 := range firsts {
		ps := []c08Pay{{Dir: "AC", Amt: 25000 * sat, Kind: k0, At: 0}, {Dir: "AC", Amt: 25000 * sat, Kind: "valid", At: 0}}
		sc := c08Scn{Name: "linkreject/" + pname(ps...) + "/bobBC=60000", Pays: ps, Dev: 1, Faults: 1, Total: 1, Freeze: true, BobBCSat: 60_000}
		if thorough && k0 == "unknown" {
			sc.Dev, sc.Faults, sc.Total = 2, 2, 2
			deeps = append(deeps, sc) // a large job: started early
			continue
		}
		out = append(out, sc)
	}
	// (b) the Add expires in Bob's outgoing mailbox while the B-C connection is slow to
	// re-establish after a cut (mailbox delivery timeout shortened to 60 ms), then cut:AB.
	expKinds := []string{"valid"}
	if thorough {
		expKinds = []string{"valid", "holdsettle", "unknown"}
	}
	for _, k := range expKinds {
		p := c08Pay{Dir: "AC", Amt: nonDust, Kind: k, At: 0}
		sc := c08Scn{Name: "expiry/" + pname(p) + "/cutBC+cutAB", Pays: []c08Pay{p}, Dev: 0, Faults: 2, Total: 2,
			MailboxExpiryMs: 60, SlowReest: "C>B", FaultSeq: []string{"cut:BC", "cut:AB"}}
		if thorough {
			sc.Dev, sc.Total, sc.Freeze = 1, 3, false
		}
		out = append(out, sc)
	}
	if thorough {
		ps := []c08Pay{{Dir: "AC", Amt: nonDust, Kind: "valid", At: 0}, {Dir: "AC", Amt: nonDust, Kind: "valid", At: 6}}
		out = append(out, c08Scn{Name: "expiry/" + pname(ps...) + "/cutBC+cutAB", Pays: ps, Dev: 0, Faults: 2, Total: 2,
			MailboxExpiryMs: 60, SlowReest: "C>B", FaultSeq: []string{"cut:BC", "cut:AB"}})
	}
	// the audit spaces go right after the product shards (large jobs first)
	audit, auditBig := c08AuditSpaces(thorough, pname)
	deeps = append(deeps, auditBig...) // single large jobs: started first
	merged := append([]c08Scn{}, out[:nProduct]...)
	merged = append(merged, audit...)
	merged = append(merged, out[nProduct:]...)
	return append(deeps, merged...)
}

// c08AuditSpaces: the dimensions added by the axis audit (configuration options, one
// database / crash points, message variants, multiplicities, mid-run timer windows), each
// crossed with the faults at every position. Amounts carry a sub-satoshi part.
func c08AuditSpaces(thorough bool, pname func(...c08Pay) string) (out, big []c08Scn) {
	const (
		sat     = 1000
		nonDust = 20000*sat + 321 // an output on every commitment, 321 msat below the next satoshi
		dustLo  = 3000*sat + 7    // dust on every commitment
	)
	base := func(fam string, sc c08Scn, suffix string) {
		sc.Name = fam + "/" + pname(sc.Pays...) + suffix
		if sc.Dev == 0 && sc.Faults == 0 {
			sc.Dev, sc.Faults, sc.Total, sc.Freeze = 1, 1, 1, true
			if thorough && len(sc.Pays) == 1 {
				sc.Dev, sc.Faults, sc.Total = 2, 2, 2
			}
		}
		out = append(out, sc)
	}
	one := func(dir, kind string, amt int64) []c08Pay { return []c08Pay{{Dir: dir, Amt: amt, Kind: kind}} }

	// (1) Bob's two channels in ONE database (cross-channel forwarding-package acks are
	// live, the switch sees both channels on restart) x graceful faults everywhere.
	base("onedb", c08Scn{Pays: []c08Pay{{Dir: "AC", Amt: nonDust, Kind: "valid"}, {Dir: "CA", Amt: nonDust, Kind: "valid", At: 6}}, OneDB: true}, "")
	base("onedb", c08Scn{Pays: one("AC", "holdsettle", nonDust), OneDB: true}, "")
	if thorough {
		base("onedb", c08Scn{Pays: one("CA", "unknown", nonDust), OneDB: true}, "")
		base("onedb", c08Scn{Pays: one("AC", "valid", nonDust), OneDB: true}, "")
		base("onedb", c08Scn{Pays: one("CA", "valid", nonDust), OneDB: true}, "")
		base("onedb", c08Scn{Pays: one("AC", "holdcancel", nonDust), OneDB: true}, "")
		base("onedb", c08Scn{Pays: one("CA", "holdsettle", dustLo), OneDB: true}, "")
		base("onedb", c08Scn{Pays: []c08Pay{{Dir: "AC", Amt: nonDust, Kind: "valid"}, {Dir: "AC", Amt: nonDust, Kind: "valid", At: 6}}, OneDB: true}, "")
		base("onedb", c08Scn{Pays: []c08Pay{{Dir: "AC", Amt: nonDust, Kind: "holdsettle"}, {Dir: "AC", Amt: dustLo, Kind: "unknown", At: 6}}, OneDB: true}, "")
	}

	// (2) crash points: Bob dies after the k-th durable write of the event being handled,
	// for every event of the default schedule and every k.
	crash := func(pays []c08Pay, dev int) {
		sc := c08Scn{Pays: pays, Dev: dev, Faults: 1, Total: dev + 1, OneDB: true, Crash: true, FaultKinds: []string{"cb"}}
		sc.Name = "crash/" + pname(pays...)
		if dev > 0 {
			sc.Name += fmt.Sprintf("/dev%d", dev)
		}
		out = append(out, sc)
	}
	crash(one("AC", "valid", nonDust), 0)
	crash(one("CA", "valid", nonDust), 0)
	crash(one("AC", "holdsettle", nonDust), 0)
	crash(one("AC", "unknown", nonDust), 0)
	crash(one("CA", "malformed", dustLo), 0)
	if thorough {
		crash(one("AC", "valid", nonDust), 1)
		crash(one("CA", "holdcancel", nonDust), 1)
		crash([]c08Pay{{Dir: "AC", Amt: nonDust, Kind: "valid"}, {Dir: "AC", Amt: nonDust, Kind: "valid", At: 6}}, 0)
		crash([]c08Pay{{Dir: "AC", Amt: nonDust, Kind: "valid"}, {Dir: "CA", Amt: nonDust, Kind: "valid"}}, 0)
		crash([]c08Pay{{Dir: "AC", Amt: nonDust, Kind: "holdsettle"}, {Dir: "AC", Amt: nonDust, Kind: "unknown", At: 6}}, 0)
		// the other order of re-establishment after the crash (Alice slower than Carol),
		// see SlowRestart: for A->C a replayed Add then finds the outgoing link eligible,
		// for C->A it does not (the default order is the opposite in both cases)
		for _, pays := range [][]c08Pay{one("AC", "valid", nonDust), one("CA", "valid", nonDust), one("AC", "holdsettle", dustLo)} {
			sc := c08Scn{Pays: pays, Faults: 1, Total: 1, OneDB: true, Crash: true, FaultKinds: []string{"cb"}, SlowRestart: "A>B"}
			sc.Name = "crash/" + pname(pays...) + "/slow=A>B"
			out = append(out, sc)
		}
	}

	// (2b) forwarding policy x crash points. Bob charges an inbound fee (surcharge) or grants
	// an inbound discount on the incoming channel and a proportional outbound fee; the
	// payment offers exactly the fee his policy demands, or one millisatoshi less. Crossed
	// with every crash point of the default schedule: the first hand-over of the Add to the
	// switch's policy check is then either the live one (revocation just received) or the
	// REPLAY of the forwarding package after the restart (crash between the forward-filter
	// write and the circuit commit), which rebuilds the packet from disk + configuration.
	// Oracle: the fee rule in big integers (c08RequiredFee) on both sides -- forwarded =>
	// covered; failed with fee_insufficient => not covered -- next to conservation.
	surcharge := &c08Policy{InboundBase: 777, InboundRate: 12345, FeeRate: 2500}
	discount := &c08Policy{InboundBase: -300, InboundRate: -1234, FeeRate: 2500}
	polName := map[*c08Policy]string{surcharge: "surcharge", discount: "discount"}
	polCrash := func(pol *c08Policy, dir string, kind string, amt, delta int64, dev int) {
		pays := []c08Pay{{Dir: dir, Amt: amt, Kind: kind, FeeDelta: delta}}
		sc := c08Scn{Pays: pays, Dev: dev, Faults: 1, Total: dev + 1, OneDB: true, Crash: true, FaultKinds: []string{"cb"}, Policy: pol}
		// after the crash the payment's INCOMING connection is the slower one to come back,
		// so that a replayed Add finds the outgoing link eligible (see SlowRestart)
		sc.SlowRestart = map[string]string{"AC": "A>B", "CA": "C>B"}[dir]
		sc.Name = "policy/crash/" + polName[pol] + "/" + pname(pays...) + "/slow=" + sc.SlowRestart
		if dev > 0 {
			sc.Name += fmt.Sprintf("/dev%d", dev)
		}
		out = append(out, sc)
	}
	for _, pol := range []*c08Policy{surcharge, discount} {
		for _, delta := range []int64{0, -1} {
			polCrash(pol, "AC", "valid", nonDust, delta, 0)
			if thorough {
				polCrash(pol, "CA", "valid", nonDust, delta, 0)
				polCrash(pol, "AC", "holdsettle", dustLo, delta, 0)
			}
		}
	}
	if thorough {
		polCrash(surcharge, "AC", "valid", nonDust, 1, 0)
		polCrash(discount, "CA", "unknown", nonDust, 0, 0)
		polCrash(surcharge, "AC", "valid", nonDust, -1, 1)
		polCrash(discount, "AC", "valid", nonDust, 0, 1)
		// the policy dimension under the graceful faults and schedule deviations (base budget)
		for _, pol := range []*c08Policy{surcharge, discount} {
			for _, delta := range []int64{0, -1} {
				for _, dir := range []string{"AC", "CA"} {
					base("policy/base/"+polName[pol], c08Scn{Pays: []c08Pay{{Dir: dir, Amt: nonDust, Kind: "valid", FeeDelta: delta}}, OneDB: true, Policy: pol,
						Dev: 1, Faults: 1, Total: 1, Freeze: true}, "")
				}
			}
			base("policy/base/"+polName[pol], c08Scn{Pays: []c08Pay{{Dir: "AC", Amt: nonDust, Kind: "valid"}, {Dir: "AC", Amt: dustLo, Kind: "valid", At: 6, FeeDelta: -1}}, OneDB: true, Policy: pol}, "")
		}
	}

	// (3) message variant update_fail_malformed_htlc: the receiver ("malformed") or
	// already Bob ("badonion") cannot parse the onion. The [badonion, valid] batch also
	// makes the ids of the incoming (#1) and outgoing (#0) HTLC of a forwarded payment differ.
	base("onion", c08Scn{Pays: one("AC", "malformed", nonDust), OneDB: true}, "")
	base("onion", c08Scn{Pays: one("CA", "malformed", nonDust)}, "")
	base("onion", c08Scn{Pays: one("AC", "badonion", nonDust), OneDB: true}, "")
	base("onion", c08Scn{Pays: []c08Pay{{Dir: "AC", Amt: dustLo, Kind: "badonion"}, {Dir: "AC", Amt: nonDust, Kind: "valid"}}, OneDB: true}, "")
	if thorough {
		base("onion", c08Scn{Pays: one("CA", "badonion", dustLo)}, "")
		base("onion", c08Scn{Pays: []c08Pay{{Dir: "AC", Amt: nonDust, Kind: "malformed"}, {Dir: "AC", Amt: nonDust, Kind: "valid", At: 6}}, OneDB: true}, "")
		base("onion", c08Scn{Pays: []c08Pay{{Dir: "CA", Amt: nonDust, Kind: "badonion"}, {Dir: "CA", Amt: nonDust, Kind: "holdsettle"}}, OneDB: true}, "")
	}

	// (4) two HTLCs with EQUAL payment hash and expiry but different amounts through the
	// forwarder; the smaller one underpays the (single) invoice and is failed by the
	// receiver, the other one is settled: both orders of everything by the deviations.
	shard := func(a0, a1 int64, at int) []c08Pay {
		return []c08Pay{{Dir: "AC", Amt: a0, Kind: "valid"}, {Dir: "AC", Amt: a1, Kind: "valid", At: at, HashOf: 1}}
	}
	base("shard", c08Scn{Pays: shard(nonDust+5000*sat, nonDust, 0), OneDB: true}, "")
	if thorough {
		base("shard", c08Scn{Pays: shard(nonDust, nonDust+5000*sat, 0), OneDB: true}, "")
		base("shard", c08Scn{Pays: shard(nonDust+5000*sat, nonDust, 6)}, "")
		base("shard", c08Scn{Pays: shard(nonDust, dustLo, 0), OneDB: true}, "")
	}

	// (5) configuration options of the forwarder that decide whether an HTLC is forwarded
	base("cfg", c08Scn{Pays: one("AC", "valid", nonDust), RejectHTLC: true}, "/rejecthtlc")
	// 4600 sat: an output on the commitments of the incoming channel, dust on Carol's
	// commitment of the outgoing one: only the outgoing-side exposure check refuses it
	base("cfg", c08Scn{Pays: one("AC", "valid", 4600*sat+7), FeeExposureSat: 2000, OneDB: true}, "/exposure=2000")
	if thorough {
		base("cfg", c08Scn{Pays: []c08Pay{{Dir: "AC", Amt: dustLo, Kind: "holdsettle"}, {Dir: "AC", Amt: dustLo, Kind: "valid", At: 6}}, FeeExposureSat: 5000, OneDB: true}, "/exposure=5000")
		base("cfg", c08Scn{Pays: one("CA", "holdsettle", nonDust), RejectHTLC: true, OneDB: true}, "/rejecthtlc")
		base("cfg", c08Scn{Pays: one("CA", "valid", dustLo), FeeExposureSat: 2000}, "/exposure=2000")
		base("cfg", c08Scn{Pays: []c08Pay{{Dir: "AC", Amt: nonDust, Kind: "holdsettle"}, {Dir: "AC", Amt: nonDust, Kind: "valid", At: 6}}, LinkFeeExposureSat: 8000, OneDB: true}, "/linkexposure=8000")
	}

	// (6) a long pause (past the 10 s / 15 s tickers) in the MIDDLE of an execution. Quick:
	// the B-C connection drops while the forwarded Add is not yet signed for and is slow to
	// come back (the Add waits in the outgoing mailbox), a long pause at every idle point,
	// then Bob restarts at every later position: the half-open circuit must be failed back
	// from the incoming link's forwarding package, which the periodic collector must
	// therefore not have removed.
	{
		p := []c08Pay{{Dir: "AC", Amt: nonDust, Kind: "valid"}}
		out = append(out, c08Scn{Name: "gc/" + pname(p...) + "/cutBC@pending+L+rb", Pays: p, Dev: 1, Faults: 2, Total: 3,
			LongIdle: true, OnlyLong: true, OneDB: true, SlowReest: "C>B", FaultSeq: []string{"cut:BC", "rb"}, FirstFaultPending: true})
	}
	// (6b) the mirror image on the RESPONSE path: the connection of the payment's INCOMING
	// channel drops (at every position) and is slow to come back, so Bob's incoming link
	// cannot commit anything while the outgoing channel carries on: the settle / fail that
	// comes back closes the circuit in the switch and then waits in the incoming link's
	// volatile mailbox, the outgoing channel finishes its commitment dance and hands the
	// locked-in response to the switch a second time. A long pause at every idle point (the
	// switch's 15 s ack ticker, the links' package collector), then Bob restarts at every
	// later position: the only durable copy of the response is the outgoing channel's
	// forwarding package, which must therefore still be un-acked -- otherwise the incoming
	// HTLC is never settled / failed back. respgc(dir, kind) picks the cut and the slow wire
	// from the payment's direction.
	respgc := func(dir, kind string, amt int64) {
		cut, slow := "cut:AB", "A>B"
		if dir == "CA" {
			cut, slow = "cut:BC", "C>B"
		}
		p := one(dir, kind, amt)
		sc := c08Scn{Name: "gc/" + pname(p...) + "/" + strings.ReplaceAll(cut, ":", "") + "@incoming+L+rb", Pays: p, Dev: 1, Faults: 2, Total: 3,
			LongIdle: true, OnlyLong: true, OneDB: true, SlowReest: slow, FaultSeq: []string{cut, "rb"}}
		if thorough {
			// started with the first jobs: on a loaded machine the thorough tier is cut short by
			// its time budget and this family must not be among the spaces that are never started
			big = append(big, sc)
			return
		}
		out = append(out, sc)
	}
	respgc("AC", "valid", nonDust)
	respgc("CA", "unknown", nonDust)
	if thorough {
		respgc("CA", "valid", nonDust)
		respgc("AC", "unknown", dustLo)
		respgc("AC", "holdsettle", nonDust)
		respgc("AC", "holdcancel", nonDust)
		respgc("CA", "malformed", nonDust)
		// ... and the variant in which the OUTGOING link is the one that replays the
		// locked-in response: incoming connection slow, then the outgoing connection drops
		// too (its link re-forwards the response from its forwarding package), pause, restart
		for _, d := range []struct{ dir, kind string }{{"AC", "valid"}, {"CA", "unknown"}} {
			seq, slow := []string{"cut:AB", "cut:BC", "rb"}, "A>B"
			if d.dir == "CA" {
				seq, slow = []string{"cut:BC", "cut:AB", "rb"}, "C>B"
			}
			p := one(d.dir, d.kind, nonDust)
			big = append(big, c08Scn{Name: "gc/" + pname(p...) + "/" + strings.ReplaceAll(strings.Join(seq, "+"), ":", "") + "@incoming+L", Pays: p, Dev: 1, Faults: 3, Total: 4,
				LongIdle: true, OnlyLong: true, OneDB: true, SlowReest: slow, FaultSeq: seq})
		}
	}
	if thorough {
		// ... and the variant without any connection loss: the incoming peer merely owes a
		// revocation (its wire towards Bob is slow: fz) when the response of the first of two
		// payments comes back, so the incoming link holds the response as an unsigned update
		ps := []c08Pay{{Dir: "AC", Amt: nonDust, Kind: "valid"}, {Dir: "AC", Amt: nonDust, Kind: "valid", At: 6}}
		// (measured: 6.9 k states, 2.2 k executions, 5.5 min as one job)
		big = append(big, c08Scn{Name: "gc/" + pname(ps...) + "/fzAB+L+rb", Pays: ps, Dev: 2, Faults: 1, Total: 3,
			LongIdle: true, OnlyLong: true, Freeze: true, FreezeWires: []string{"A>B"}, OneDB: true, FaultKinds: []string{"rb"}})
	}
	// THOROUGH ONLY: a long pause (past the switch's 10 s / 15 s tickers and the links'
	// 15 s forwarding-package collector) in the MIDDLE of an execution -- while an HTLC is
	// held (long/), or while a forwarded Add waits in the mailbox of an outgoing link whose
	// connection is slow to come back, followed by a restart of Bob (gc/: the half-open
	// circuit must be failed back from the incoming link's forwarding package, which the
	// collector must therefore not have removed).
	if thorough {
		long := func(pays []c08Pay) {
			out = append(out, c08Scn{Name: "long/" + pname(pays...), Pays: pays, Dev: 1, Faults: 1, Total: 2,
				LongIdle: true, OnlyLong: true, OneDB: true})
		}
		long(one("AC", "holdsettle", nonDust))
		long(one("CA", "holdsettle", nonDust))
		long(one("AC", "holdcancel", dustLo))
		long([]c08Pay{{Dir: "AC", Amt: nonDust, Kind: "valid"}, {Dir: "AC", Amt: nonDust, Kind: "valid", At: 40}})
		for _, k := range []string{"valid", "holdsettle"} {
			p := one("AC", k, nonDust)
			out = append(out, c08Scn{Name: "gc/" + pname(p...) + "/cutBC+L+rb", Pays: p, Dev: 1, Faults: 2, Total: 3,
				LongIdle: true, OnlyLong: true, OneDB: true, SlowReest: "C>B", FaultSeq: []string{"cut:BC", "rb"}})
		}
	}
	return out, big
}

// gate scenarios: fixed event lists (default schedule with the listed deviations)
func c08GateCases() []c08Job {
	valid := c08Pay{Dir: "AC", Amt: 20_000_000, Kind: "valid", At: 0}
	back := c08Pay{Dir: "CA", Amt: 3_000_000, Kind: "valid", At: 6}
	hold := c08Pay{Dir: "AC", Amt: 20_000_000, Kind: "holdsettle", At: 0}
	unk := c08Pay{Dir: "CA", Amt: 20_000_000, Kind: "unknown", At: 4}
	return []c08Job{
		{Mode: "replay", Scn: c08Scn{Name: "gate/2p-default", Pays: []c08Pay{valid, back}, Faults: 2, Dev: 2}},
		{Mode: "replay", Scn: c08Scn{Name: "gate/2p-cutBC+restartBob", Pays: []c08Pay{valid, back}, Faults: 2, Dev: 2},
			Hist: strings.Fields("pay0 d:A>B T d:A>B d:B>A d:B>A pay1 d:A>B cut:BC d:B>C d:C>B d:C>B d:B>C T d:B>C d:C>B d:C>B d:B>C d:B>C d:C>B d:C>B rb")},
		{Mode: "replay", Scn: c08Scn{Name: "gate/2p-slowAB+restartBob", Pays: []c08Pay{valid, {Dir: "AC", Amt: 20_000_000, Kind: "valid", At: 6}}, Faults: 2, Dev: 2, Freeze: true},
			Hist: strings.Fields("pay0 d:A>B T d:A>B d:B>A d:B>A pay1 d:A>B d:A>B d:B>C T d:A>B d:B>C d:B>A d:B>A d:C>B d:C>B d:A>B d:B>C d:B>C d:C>B d:C>B d:B>A d:B>A d:B>C d:B>C fz:A>B d:C>B d:C>B d:B>C d:C>B d:C>B d:B>A d:B>C d:B>C d:C>B T T un:A>B rb")},
		{Mode: "replay", Scn: c08Scn{Name: "gate/hold+unknown-cutAB", Pays: []c08Pay{hold, unk}, Faults: 2, Dev: 2},
			Hist: strings.Fields("pay0 d:A>B T d:A>B pay1 d:B>A T cut:AB")},
		// one database for Bob, Bob dies after the first write of the revocation that locks the Add in
		{Mode: "replay", Scn: c08Scn{Name: "gate/onedb-crash", Pays: []c08Pay{{Dir: "AC", Amt: 20_000_321, Kind: "valid"}}, Faults: 1, OneDB: true, Crash: true},
			Hist: strings.Fields("pay0 d:A>B T d:A>B d:B>A d:B>A cb:1")},
		// an onion Bob cannot parse next to a forwarded payment, a long pause, a cut
		{Mode: "replay", Scn: c08Scn{Name: "gate/badonion+hold-long-cutBC", Pays: []c08Pay{{Dir: "AC", Amt: 3_000_007, Kind: "badonion"}, {Dir: "AC", Amt: 20_000_321, Kind: "holdsettle"}}, Faults: 1, Dev: 1, OneDB: true, LongIdle: true},
			Hist: strings.Fields("pay0 pay1 d:A>B d:A>B T d:A>B d:B>A d:B>A d:A>B d:B>A d:B>A d:B>C d:A>B d:A>B d:B>A T d:B>C d:C>B d:C>B d:B>C T T L cut:BC")},
		// inbound discount + proportional fee, Bob dies between the forward-filter write and the
		// circuit commit, Alice is the slower peer to reconnect: the replayed Add runs through the policy check
		{Mode: "replay", Scn: c08Scn{Name: "gate/policy-crash-slowrestart", Pays: []c08Pay{{Dir: "AC", Amt: 20_000_321, Kind: "valid"}}, Faults: 1, OneDB: true, Crash: true,
			Policy: &c08Policy{InboundBase: -300, InboundRate: -1234, FeeRate: 2500}, SlowRestart: "A>B"},
			Hist: strings.Fields("pay0 d:A>B T d:A>B d:B>A d:B>A cb:2")},
		// the incoming connection drops before the settle comes back and is slow to return, the
		// outgoing channel finishes, long pause (ack ticker), Bob restarts
		{Mode: "replay", Scn: c08Scn{Name: "gate/cutAB-slow+long+restartBob", Pays: []c08Pay{{Dir: "AC", Amt: 20_000_321, Kind: "valid"}}, Faults: 2, Dev: 1, OneDB: true, LongIdle: true, OnlyLong: true,
			SlowReest: "A>B", FaultSeq: []string{"cut:AB", "rb"}},
			Hist: strings.Fields("pay0 d:A>B T d:A>B d:B>A d:B>A d:A>B d:B>C T d:B>C d:C>B d:C>B d:B>C cut:AB d:C>B d:C>B d:B>A d:B>C d:B>C d:C>B T T L un:A>B rb")},
	}
}

func TestC08(t *testing.T) {
	if os.Getenv("VERIF_C08_MODE") == "worker" {
		c08Worker(t)
		return
	}
	run := evid.Start("C08", "exploration")
	self := os.Getenv("VERIF_SELF")
	if self == "" {
		self, _ = os.Executable()
	}
	scratch := os.Getenv("VERIF_SCRATCH")
	if scratch == "" {
		scratch = t.TempDir()
	}
	pool := &c08Pool{self: self, scratch: scratch}
	run.Assumptions = append(run.Assumptions,
		"goroutine interleavings inside the handling of one event are the Go scheduler's, not enumerated; what is enumerated is message order, fault position, timer order (the property's own quantifier leaves scheduling to the runtime)",
		"the repo's three-hop fixture: mock onion/obfuscator, static fee estimator, no chain events, tweakless channels only (the other channel types are C01-C05's subject). In the spaces inherited from the first rounds Bob's two channels live in two bbolt files (fixture artefact: cross-channel settle/fail acks of forwarding packages are no-ops there); in the one_db spaces both live in one database as on a real node",
		"faults are graceful (a link or switch stops between two events, i.e. at a point where every goroutine is blocked) except in the crash spaces, where Bob dies after the k-th write transaction of an event for every k; a crash loses every message in flight in both directions (the variant in which a peer still receives what Bob sent just before dying is not explored)",
		"an undecodable onion is modelled at the decoder seam: for the chosen payment hash the link's DecodeHopIterators reports CodeInvalidOnionHmac, the code the sphinx processor reports for a corrupted packet",
		"one lnd-internal scheduler race is visible at quiescent points (when one revocation locks in adds and settles/fails destined for the same other link, the mailbox may or may not let the response overtake the add); the harness pins the add-first order by delaying settle/fail batches by nanoseconds of virtual time at the fixture's ForwardPackets closure; the response-first order is not explored",
		"virtual time per execution stays below the 30 min fee-update timer and the 1 h mailbox/invoice expiry; HTLC expiry by block height is out of scope (no block epochs)",
	)

	if rp := os.Getenv("VERIF_REPLAY"); rp != "" {
		c08Replay(t, run, pool, rp)
		return
	}

	budget := 240 * time.Second
	if run.Thorough() {
		budget = 26 * time.Minute
	}
	if v, err := strconv.Atoi(os.Getenv("VERIF_C08_BUDGET_S")); err == nil && v > 0 {
		budget = time.Duration(v) * time.Second
	}
	deadline := time.Now().Add(budget)

	cov := map[string]any{}
	var capsHit []string
	nondet := false

	// ---- determinism gate ---------------------------------------------------------
	gateReps, gateProcs := 5, 4
	gate := map[string]any{}
	{
		var wg sync.WaitGroup
		var mu sync.Mutex
		sem := make(chan struct{}, c08Parallel())
		for _, gc := range c08GateCases() {
			hashes := map[string]int{}
			var errs []string
			for p := 0; p < gateProcs; p++ {
				wg.Add(1)
				sem <- struct{}{}
				go func(gc c08Job) {
					defer wg.Done()
					defer func() { <-sem }()
					gc.Reps = gateReps
					r, err := pool.run(gc, 10*time.Minute, false)
					mu.Lock()
					defer mu.Unlock()
					if err != nil {
						errs = append(errs, err.Error())
						return
					}
					for i, h := range r.Traces {
						hashes[h+"/"+r.Outcome[i]]++
					}
					for _, d := range r.Dead {
						errs = append(errs, d)
					}
				}(gc)
			}
			wg.Wait()
			g := map[string]any{"replays": gateReps * gateProcs, "distinct_traces": len(hashes), "traces": hashes}
			if len(errs) > 0 {
				g["errors"] = errs
			}
			gate[gc.Scn.Name] = g
			if len(hashes) != 1 || len(errs) > 0 {
				nondet = true
				fmt.Printf("INFO determinism gate FAILED for %s: %v %v\n", gc.Scn.Name, hashes, errs)
			}
		}
	}
	cov["determinism_gate"] = gate
	if nondet {
		cov["nondeterminism_detected"] = true
		cov["exhaustive"] = false
		cov["caps_hit"] = []string{"determinism gate failed: exploration skipped, no verdict"}
		cov["evaluations"] = 0
		cov["distinct_nontrivial"] = 0
		cov["rule"] = "determinism gate failed"
		cov["samples"] = []any{"none"}
		os.Exit(run.Finish(cov))
	}
	fmt.Printf("INFO determinism gate passed: %d fixed event lists x %d replays in %d processes, identical observation traces (%.0fs)\n",
		len(c08GateCases()), gateReps*gateProcs, gateProcs, run.Elapsed().Seconds())

	// ---- exploration ---------------------------------------------------------------
	spaces := c08Spaces(run.Thorough())
	// VERIF_SEED only rotates the order in which spaces are handed to workers.
	if s := run.Seed(); s > 0 && len(spaces) > 0 {
		k := s % len(spaces)
		spaces = append(spaces[k:], spaces[:k]...)
	}
	if f := os.Getenv("VERIF_C08_ONLY"); f != "" {
		var sel []c08Scn
		for _, s := range spaces {
			if strings.Contains(s.Name, f) {
				sel = append(sel, s)
			}
		}
		spaces = sel
	}
	var (
		mu       sync.Mutex
		wg       sync.WaitGroup
		results  []*c08Result
		skipped  []string
		broken   []string
		sem      = make(chan struct{}, c08Parallel())
		perSpace = budget * 6 / 10
	)
	for _, sp := range spaces {
		if time.Now().After(deadline) {
			skipped = append(skipped, sp.Name)
			continue
		}
		sem <- struct{}{}
		wg.Add(1)
		go func(sp c08Scn) {
			defer wg.Done()
			defer func() { <-sem }()
			left := time.Until(deadline)
			if left <= 0 {
				mu.Lock()
				skipped = append(skipped, sp.Name)
				mu.Unlock()
				return
			}
			b := perSpace
			if left < b {
				b = left
			}
			r, err := pool.run(c08Job{Mode: "explore", Scn: sp, BudgetS: b.Seconds()}, b+3*time.Minute, false)
			mu.Lock()
			defer mu.Unlock()
			if err != nil {
				broken = append(broken, sp.Name+": "+err.Error())
				return
			}
			results = append(results, r)
		}(sp)
	}
	wg.Wait()

	// ---- aggregate ----------------------------------------------------------------
	var (
		states, transitions, replays, steps, terminals int64
		outcomes                                       = map[string]int{}
		perSp                                          = map[string]any{}
		exhaustive                                     = true
		samples                                        = evid.NewSamples(4)
		recheck, recheckBad                            int
		stepsChecked, divergences                      int64
		divergeAt                                      []string
		cands                                          []struct {
			scn c08Scn
			v   c08FoundViol
		}
		maxDepth                             int
		crashes, noopCrashes, crashSaturated int
		maxWrites                            = map[string]int64{}
	)
	byName := map[string]c08Scn{}
	for _, s := range spaces {
		byName[s.Name] = s
	}
	sort.Slice(results, func(i, j int) bool { return results[i].Name < results[j].Name })
	var skippedSpaces []string
	for _, r := range results {
		if r.Skipped != "" {
			skippedSpaces = append(skippedSpaces, r.Name+": "+c08Short(r.Skipped))
			continue
		}
		states += r.States
		transitions += r.Transitions
		replays += r.Replays
		steps += r.ReplaySteps
		terminals += r.Terminals
		recheck += r.Recheck
		recheckBad += r.RecheckBad
		stepsChecked += r.StepsChecked
		divergences += r.Divergences
		for _, d := range r.DivergeAt {
			if len(divergeAt) < 6 {
				divergeAt = append(divergeAt, r.Name+": "+d)
			}
		}
		if r.MaxDepth > maxDepth {
			maxDepth = r.MaxDepth
		}
		crashes += r.Crashes
		noopCrashes += r.NoopCrashes
		crashSaturated += r.CrashSaturated
		for k, n := range r.MaxWrites {
			if n > maxWrites[k] {
				maxWrites[k] = n
			}
		}
		for k, n := range r.Outcomes {
			outcomes[k] += n
		}
		perSp[r.Name] = fmt.Sprintf("states=%d transitions=%d executions=%d terminals=%d outcomes=%d wall=%.0fs%s", r.States, r.Transitions, r.Replays, r.Terminals, len(r.Outcomes), r.WallS, map[bool]string{true: "", false: " CAP:" + r.CapHit}[r.Exhaustive])
		if !r.Exhaustive {
			exhaustive = false
			capsHit = append(capsHit, fmt.Sprintf("space %s stopped by %s after %d states", r.Name, r.CapHit, r.States))
		}
		if r.Sample != nil {
			samples.Add(map[string]any{"space": byName[r.Name], "history": strings.Join(r.Sample, " ")})
		}
		for _, d := range r.Dead {
			broken = append(broken, r.Name+": "+d)
		}
		for _, v := range r.Viols {
			cands = append(cands, struct {
				scn c08Scn
				v   c08FoundViol
			}{byName[r.Name], v})
		}
	}
	if len(skippedSpaces) > 0 {
		exhaustive = false
		cov["skipped_spaces"] = skippedSpaces
		capsHit = append(capsHit, fmt.Sprintf("%d spaces skipped: a seam they need is not available on this tree", len(skippedSpaces)))
	}
	if len(skipped) > 0 {
		exhaustive = false
		capsHit = append(capsHit, fmt.Sprintf("time budget %v: %d spaces not started (%s ...)", budget, len(skipped), skipped[0]))
	}
	if recheckBad > 0 || divergences > 0 {
		nondet = true
		for _, d := range divergeAt {
			fmt.Printf("INFO replay divergence: %s\n", c08Short(d))
		}
	}

	// ---- confirm candidates: 3 replays in fresh processes --------------------------
	seenSig := map[string]bool{}
	confirmed := 0
	for _, c := range cands {
		if seenSig[c.v.Sig] || confirmed >= 12 {
			continue
		}
		seenSig[c.v.Sig] = true
		var hashes []string
		agree := true
		for i := 0; i < 3; i++ {
			r, err := pool.run(c08Job{Mode: "replay", Scn: c.scn, Hist: c.v.Hist, Reps: 1}, 10*time.Minute, false)
			if err != nil || len(r.Traces) != 1 {
				agree = false
				break
			}
			has := false
			for _, v := range r.RViols[0] {
				if v.Sig == c.v.Sig {
					has = true
				}
			}
			hashes = append(hashes, r.Traces[0])
			if !has || hashes[0] != r.Traces[0] {
				agree = false
			}
		}
		if !agree {
			nondet = true
			fmt.Printf("INFO candidate %q did not reproduce identically in 3 replays (%v): NOT reported as a violation\n", c.v.Sig, hashes)
			continue
		}
		confirmed++
		run.Violation(c.v.Sig, c.v.What+"  [space "+c.scn.Name+"; history: "+strings.Join(c.v.Hist, " ")+"]",
			map[string]any{"scn": c.scn, "hist": c.v.Hist})
	}

	if len(broken) > 0 {
		// harness-level problems are not verdicts: make them visible and fail the run
		for _, b := range broken {
			fmt.Printf("INFO harness problem: %s\n", c08Short(b))
		}
		cov["harness_problems"] = broken
		exhaustive = false
		capsHit = append(capsHit, fmt.Sprintf("%d executions/spaces ended in a harness-level failure", len(broken)))
	}
	if nondet {
		cov["nondeterminism_detected"] = true
		exhaustive = false
		capsHit = append(capsHit, "a replay diverged from its exploration run")
	}
	cov["evaluations"] = int(replays)
	cov["distinct_nontrivial"] = int(states)
	cov["states"] = int(states)
	cov["transitions"] = int(transitions)
	cov["executions"] = int(replays)
	cov["replayed_steps"] = int(steps)
	cov["terminal_executions"] = int(terminals)
	cov["max_depth"] = maxDepth
	cov["spaces"] = len(results)
	cov["per_space"] = perSp
	cov["distinct_outcomes"] = len(outcomes)
	{
		// keep the evidence readable: the 120 most frequent classes, the rest summed
		type kv struct {
			k string
			n int
		}
		var l []kv
		for k, n := range outcomes {
			l = append(l, kv{k, n})
		}
		sort.Slice(l, func(i, j int) bool {
			if l[i].n != l[j].n {
				return l[i].n > l[j].n
			}
			return l[i].k < l[j].k
		})
		oc := map[string]int{}
		for i, e := range l {
			if i < 120 {
				oc[e.k] = e.n
			} else {
				oc["(other classes)"] += e.n
			}
		}
		cov["outcome_classes"] = oc
		// coarse view: per-payment result kinds x faults, always complete
		coarse := map[string]int{}
		for k, n := range outcomes {
			var parts []string
			for _, f := range strings.Fields(k) {
				if i := strings.Index(f, ":"); i >= 0 && !strings.HasPrefix(f, "faults=") {
					r := f[i+1:]
					if j := strings.Index(r, ":"); j >= 0 {
						r = r[:j]
					}
					if r == "" {
						r = "no-result"
					}
					parts = append(parts, r)
				} else {
					parts = append(parts, f)
				}
			}
			coarse[strings.Join(parts, " ")] += n
		}
		cov["outcome_classes_coarse"] = coarse
	}
	if crashes+noopCrashes > 0 {
		cov["crash_executions"] = crashes
		cov["crash_branches_without_further_write"] = noopCrashes
		cov["crash_k_saturated"] = crashSaturated
		cov["bob_write_txs_per_event_max"] = maxWrites
		if crashSaturated > 0 {
			exhaustive = false
			capsHit = append(capsHit, fmt.Sprintf("%d crash executions crashed at the largest enumerated k: the event may perform more writes than were enumerated", crashSaturated))
		}
	}
	cov["in_process_replay_checks"] = recheck
	cov["replayed_steps_key_checked"] = int(stepsChecked)
	cov["replay_divergences"] = int(divergences)
	if len(divergeAt) > 0 {
		cov["replay_divergence_examples"] = divergeAt
	}
	cov["rule"] = "per space (payment batch + budgets, see per_space): every event schedule of the real three-hop network (inside a synctest bubble) with at most Dev schedule deviations (out-of-order delivery, early tick, early hold resolution, slow wire fz/un) and at most Faults fault events (cut:AB, cut:BC, restart Bob), at most Total of both, relative to the default 'deliver the oldest message, tick when nothing is in flight'; base = 1/1/1, deep = 2/2/2, onedb / onion / shard / cfg = base budget on the audit dimensions (one database for Bob, undecodable onions, equal-hash HTLC pairs, RejectHTLC / MaxFeeExposure), crash = the default schedule with Bob dying after the k-th write transaction of every event that reaches him (every k up to a bound above the measured maximum), gc = connection loss while a forwarded Add is unsigned + a 20 s pause at every idle point + restart of Bob at every later point, gc/...@incoming = loss of the payment's INCOMING connection at every point with a slow re-establishment (the settle/fail waits in the incoming link's mailbox while the outgoing channel completes) + a 20 s pause at every idle point + restart of Bob at every later point, policy/crash = the crash enumeration with an inbound surcharge / discount and a proportional fee configured at Bob, payments offering exactly the demanded fee or 1 msat less, the payment's incoming peer being the slower one to reconnect after the crash (a replayed Add then reaches the policy check), judged by the big-integer fee rule on the accepting and the rejecting side, linkreject = base budget on batches where Bob's outgoing link itself rejects an Add, expiry = cut:BC then cut:AB with a 60 ms mailbox timeout and a slow re-establishment, product = one slow wire x one fault (sharded by wire and fault kind, shards share their default prefix so sums over shards count those states once per shard); an evaluation = one execution (a fresh network replaying an event list); distinct_nontrivial = distinct canonical quiescent states (commitments of all four channel ends, circuit counts, wires, payment and invoice states, forwarding-package progress, budgets used) reached after at least one event, summed over spaces, each of which had the per-state oracle clauses evaluated; terminal_executions had the conservation clauses evaluated"
	sl := samples.List()
	if len(sl) == 0 {
		sl = []any{"none"}
	}
	cov["samples"] = sl
	cov["exhaustive"] = exhaustive
	if len(capsHit) > 0 {
		cov["caps_hit"] = capsHit
	}
	fmt.Printf("INFO explored %d spaces: %d states, %d transitions, %d executions, %d terminal, %d outcome classes\n", len(results), states, transitions, replays, terminals, len(outcomes))
	code := run.Finish(cov)
	if code == 0 && len(results) == 0 {
		fmt.Println("no space was explored")
		os.Exit(2)
	}
	if code == 0 && len(broken) > 0 {
		// executions that died at harness level (fixture t.Fatal, worker crash) may hide
		// violations: not a verdict
		fmt.Printf("HARNESS-PROBLEM: %d executions/spaces ended in a harness-level failure, first: %s\n", len(broken), c08Short(broken[0]))
		os.Exit(2)
	}
	if code != 0 {
		os.Exit(code)
	}
}

func c08Replay(t *testing.T, run *evid.Run, pool *c08Pool, path string) {
	b, err := os.ReadFile(path)
	if err != nil {
		t.Fatalf("replay: %v", err)
	}
	var doc struct {
		Signature string `json:"signature"`
		Replay    struct {
			Scn  c08Scn   `json:"scn"`
			Hist []string `json:"hist"`
		} `json:"replay"`
	}
	if err := json.Unmarshal(b, &doc); err != nil {
		t.Fatalf("replay: %v", err)
	}
	fmt.Printf("INFO replaying space %s, history: %s\n", doc.Replay.Scn.Name, strings.Join(doc.Replay.Hist, " "))
	fmt.Printf("INFO recorded signature: %s\n", doc.Signature)
	var first *c08Result
	same := true
	for i := 0; i < 3; i++ {
		r, err := pool.run(c08Job{Mode: "replay", Scn: doc.Replay.Scn, Hist: doc.Replay.Hist, Reps: 1, Verbose: i == 0}, 10*time.Minute, i == 0)
		if err != nil || len(r.Traces) != 1 {
			fmt.Printf("INFO replay %d failed: %v\n", i, err)
			same = false
			continue
		}
		for _, d := range r.Dead {
			fmt.Printf("INFO replay %d: %s\n", i, d)
		}
		if first == nil {
			first = r
		} else if first.Traces[0] != r.Traces[0] {
			same = false
			fmt.Printf("INFO NONDETERMINISTIC replay: trace %s vs %s\n", first.Traces[0], r.Traces[0])
		}
	}
	cov := map[string]any{"evaluations": 3, "distinct_nontrivial": 2, "rule": "replay of one recorded history, 3 fresh processes", "samples": []any{doc.Replay}}
	if first == nil {
		cov["exhaustive"] = false
		os.Exit(run.Finish(cov))
	}
	fmt.Printf("INFO outcome: %s\n", first.Outcome[0])
	if !same {
		cov["nondeterminism_detected"] = true
		cov["exhaustive"] = false
		fmt.Printf("INFO the three replays disagree: no verdict\n")
		os.Exit(run.Finish(cov))
	}
	if len(first.RViols[0]) == 0 {
		fmt.Printf("INFO no clause violated on this tree\n")
	}
	for _, v := range first.RViols[0] {
		run.Violation(v.Sig, v.What, doc.Replay)
	}
	os.Exit(run.Finish(cov))
}
