// C08 — "a forwarding node never ends up out of pocket".
//
// world_test.go: one bubble-hosted three-hop network (the repo's own fixture: real
// switches, links, mailboxes, circuit maps, forwarding packages, channels and invoice
// registries) whose peer-to-peer messages are owned by the explorer.
//
// Every message a link sends is captured by an interceptor on the receiving
// mockServer into one of four explorer-owned FIFO wires and is only handed to the
// receiving link when the explorer chooses the event "deliver head of wire w".
// Virtual time (testing/synctest) only advances when the explorer performs the
// event "T" (one batch-ticker period) or a fault event; after every event the
// explorer calls synctest.Wait(), i.e. observes the system only when every goroutine
// is durably blocked.
package htlcswitch

import (
	"context"
	"crypto/sha256"
	"fmt"
	"math/big"
	"net"
	"os"
	"path/filepath"
	"reflect"
	"runtime"
	"sort"
	"strings"
	"sync"
	"testing"
	"testing/synctest"
	"time"
	"unsafe"

	"github.com/btcsuite/btcd/btcec/v2"
	"github.com/btcsuite/btcd/btcutil/v2"
	"github.com/lightningnetwork/lnd/channeldb"
	"github.com/lightningnetwork/lnd/graph/db/models"
	"github.com/lightningnetwork/lnd/htlcswitch/hop"
	"github.com/lightningnetwork/lnd/input"
	"github.com/lightningnetwork/lnd/invoices"
	"github.com/lightningnetwork/lnd/kvdb"
	"github.com/lightningnetwork/lnd/lntypes"
	"github.com/lightningnetwork/lnd/lnwallet"
	"github.com/lightningnetwork/lnd/lnwire"
	"github.com/lightningnetwork/lnd/verifmc/crashdb"
)

// ---------------------------------------------------------------------------------
// scenario description (JSON: it is the replay artefact together with the history)

// c08Pay is one payment of a batch.
type c08Pay struct {
	// Dir is "AC" (Alice->Bob->Carol) or "CA" (Carol->Bob->Alice).
	Dir string `json:"dir"`
	// Amt is the amount the receiver is to get, in msat.
	Amt int64 `json:"amt"`
	// Kind: valid | unknown | wrongamt | holdsettle | holdcancel.
	Kind string `json:"kind"`
	// At: the payment is launched once this many events have been performed.
	At int `json:"at"`
	// HashOf (k+1, 0 = none): this payment re-uses the payment hash (and the invoice)
	// of payment k -- two HTLCs with equal hash and expiry but different amounts travel
	// through the forwarder (a "shard" pair). The receiver holds one invoice, that of
	// payment k.
	HashOf int `json:"hash_of,omitempty"`
	// FeeDelta (msat, signed; only read in spaces with a Policy): the sender offers on the
	// first hop exactly what the receiver is to get plus the fee Bob's configured policy
	// demands (exact integer arithmetic, see c08RequiredFee) plus FeeDelta: 0 = exactly
	// sufficient, -1 = one millisatoshi short, +1 = one too many.
	FeeDelta int64 `json:"fee_delta,omitempty"`
}

// c08Policy is the forwarding-policy dimension: what Bob's operator configured on BOTH of
// his channels (each one is the incoming channel of one direction and the outgoing channel
// of the other). Zero fields keep the fixture's value (base fee 1 sat, rate 0, no inbound
// fee). A real node hands the policy to the link when it creates it, also after a restart;
// the harness applies it to every link it (re-)creates before the link can process anything.
type c08Policy struct {
	// InboundBase / InboundRate: the inbound fee (msat / parts per million, signed: a
	// negative value is a discount) charged for HTLCs that ARRIVE on the channel.
	InboundBase int32 `json:"inbound_base,omitempty"`
	InboundRate int32 `json:"inbound_rate,omitempty"`
	// FeeRate: proportional part (ppm) of the outbound fee.
	FeeRate int64 `json:"fee_rate,omitempty"`
}

// c08Scn is one exploration space: a payment batch plus the budgets of the search.
type c08Scn struct {
	Name string   `json:"name"`
	Pays []c08Pay `json:"pays"`
	// Dev: schedule deviations allowed (anything but the default continuation that
	// is not a fault: out-of-order delivery, early tick, early hold resolution,
	// freezing / early unfreezing of a wire).
	Dev int `json:"dev"`
	// Faults: fault events allowed (cut:AB, cut:BC, restart Bob).
	Faults int `json:"faults"`
	// Total bounds Dev+Faults used together (0 = Dev+Faults, i.e. the full product).
	Total int `json:"total,omitempty"`
	// Freeze adds the "slow wire" deviation: fz:W holds back every message of one
	// directed wire until un:W (default once nothing else can happen).
	Freeze bool `json:"freeze,omitempty"`
	// OnlyFreeze restricts schedule deviations to fz/un.
	OnlyFreeze bool `json:"only_freeze,omitempty"`
	// BobBCSat: Bob's balance on the Bob-Carol channel in satoshi (0 = 5 BTC like
	// every other channel end). A small value makes Bob unable to forward A->C.
	BobBCSat int64 `json:"bob_bc_sat,omitempty"`
	// MailboxExpiryMs (>0) shortens the delivery timeout of Bob's mailboxes (fixture:
	// one hour, which lies beyond the fixture's random 30-40 min fee-update timer and the
	// invoice expiry) so that an Add can expire in the outgoing mailbox while the B-C
	// connection is re-establishing. Set by reflection on the switch's unexported
	// mailbox configuration; a space that needs it is skipped if that fails.
	MailboxExpiryMs int `json:"mailbox_expiry_ms,omitempty"`
	// SlowReest names a wire (e.g. "C>B") that is frozen, at no cost to the deviation
	// budget, whenever its connection has just been cut: the re-establishment of that
	// connection is slow, the link stays registered but does not consume its mailbox.
	SlowReest string `json:"slow_reest,omitempty"`
	// FaultSeq, if set, prescribes the kinds of the faults in order (the k-th fault of
	// an execution must be FaultSeq[k]).
	FaultSeq []string `json:"fault_seq,omitempty"`
	// FaultKinds / FreezeWires restrict the fault events / the wires that may be
	// frozen (empty = all). Used to shard one large space over several workers.
	FaultKinds  []string `json:"fault_kinds,omitempty"`
	FreezeWires []string `json:"freeze_wires,omitempty"`

	// ---- dimensions added by the axis audit (all off = the fixture as it is) ----------

	// OneDB: Bob's two channels live in ONE database, as the channels of a real node do
	// (the fixture gives every channel end its own bbolt file, which turns every
	// cross-channel forwarding-package ack -- SettleFailAcks of a commit diff,
	// AckSettleFails of the switch for one direction -- into a no-op and hides the second
	// channel from the switch's own reforwardResponses). The database sits behind the
	// crashdb wrapper.
	OneDB bool `json:"one_db,omitempty"`
	// Crash (needs OneDB) adds the fault "cb:k": the default continuation is performed
	// while Bob's database refuses every write transaction after the k-th one of that
	// event (Bob's process dies right after its k-th durable write), then Bob restarts
	// from disk like "rb". Nothing Bob does after the crash instant survives: all four
	// wires are cleared, his switch, links, mailboxes and preimage cache are rebuilt.
	Crash bool `json:"crash,omitempty"`
	// RejectHTLC: Bob runs with --rejecthtlc (Config.RejectHTLC): every forward is refused.
	RejectHTLC bool `json:"reject_htlc,omitempty"`
	// FeeExposureSat (>0): Bob's Config.MaxFeeExposure (switch-level dust exposure
	// threshold, default 500 000 sat) in satoshi.
	FeeExposureSat int64 `json:"fee_exposure_sat,omitempty"`
	// LinkFeeExposureSat (>0): ChannelLinkConfig.MaxFeeExposure of Bob's links.
	LinkFeeExposureSat int64 `json:"link_fee_exposure_sat,omitempty"`
	// LongIdle adds the schedule deviation "L" (20 s of virtual time: past the switch's
	// 10 s log and 15 s ack tickers and the links' 15 s forwarding-package collector)
	// whenever nothing is deliverable and two ticks changed nothing, i.e. in the middle
	// of an execution while an HTLC is held or before a late payment, not only in the
	// terminal drain.
	LongIdle bool `json:"long_idle,omitempty"`
	// OnlyLong restricts schedule deviations to "L".
	OnlyLong bool `json:"only_long,omitempty"`
	// FirstFaultPending: the first fault may only happen while one of Bob's links holds an
	// update of its own that no signature covers yet (a forwarded Add that has just left
	// the mailbox): the window in which a connection loss leaves the Add in the mailbox.
	FirstFaultPending bool `json:"first_fault_pending,omitempty"`

	// ---- dimensions added after the round-e misses --------------------------------------

	// Policy: Bob's forwarding policy (inbound fee or discount, proportional outbound fee);
	// payments then carry FeeDelta. With it the policy clauses of the oracle have both an
	// accepting and a rejecting side: "forwarded => the fee Bob keeps covers what his policy
	// demands" and "rejected with fee_insufficient => it does not".
	Policy *c08Policy `json:"policy,omitempty"`
	// SlowRestart names a wire towards Bob ("A>B" or "C>B") that is frozen, at no cost to
	// the deviation budget, whenever Bob has just restarted (rb, cb:k): that peer is the
	// slower one to reconnect, the OTHER connection is re-established first. (Default order
	// without it: oldest message first, i.e. Alice's channel_reestablish before Carol's.)
	// The order decides what a link that replays its forwarding packages finds: with the
	// incoming connection of a payment slow, the outgoing link is already eligible when the
	// incoming link hands the replayed Add to the switch, so the replay runs through the
	// switch's policy check instead of ending in unknown_next_peer.
	SlowRestart string `json:"slow_restart,omitempty"`
}

func c08In(list []string, v string) bool {
	if len(list) == 0 {
		return true
	}
	for _, x := range list {
		if x == v {
			return true
		}
	}
	return false
}

func (s c08Scn) total() int {
	if s.Total > 0 {
		return s.Total
	}
	return s.Dev + s.Faults
}

// ---------------------------------------------------------------------------------
// testing.TB wrapper: per-execution cleanups and temp dirs, failures recorded instead
// of aborting the (single) real test.

type c08TB struct {
	*testing.T
	mu       sync.Mutex
	cleanups []func()
	fails    []string
	dir      string
	nDir     int
}

func (c *c08TB) Cleanup(f func()) {
	c.mu.Lock()
	c.cleanups = append(c.cleanups, f)
	c.mu.Unlock()
}

func (c *c08TB) TempDir() string {
	c.mu.Lock()
	c.nDir++
	d := filepath.Join(c.dir, fmt.Sprintf("d%d", c.nDir))
	c.mu.Unlock()
	_ = os.MkdirAll(d, 0o755)
	return d
}

func (c *c08TB) record(s string) {
	c.mu.Lock()
	c.fails = append(c.fails, s)
	c.mu.Unlock()
}
func (c *c08TB) Helper()                           {}
func (c *c08TB) Log(args ...any)                   {}
func (c *c08TB) Logf(format string, args ...any)   {}
func (c *c08TB) Error(args ...any)                 { c.record(fmt.Sprint(args...)) }
func (c *c08TB) Errorf(format string, args ...any) { c.record(fmt.Sprintf(format, args...)) }
func (c *c08TB) Fail()                             { c.record("Fail()") }
func (c *c08TB) FailNow()                          { c.record("FailNow()"); runtime.Goexit() }
func (c *c08TB) Fatal(args ...any)                 { c.record(fmt.Sprint(args...)); runtime.Goexit() }
func (c *c08TB) Fatalf(format string, args ...any) {
	c.record(fmt.Sprintf(format, args...))
	runtime.Goexit()
}
func (c *c08TB) Context() context.Context { return context.Background() }
func (c *c08TB) failures() []string {
	c.mu.Lock()
	defer c.mu.Unlock()
	return append([]string{}, c.fails...)
}
func (c *c08TB) runCleanups() {
	c.mu.Lock()
	cl := c.cleanups
	c.cleanups = nil
	c.mu.Unlock()
	for i := len(cl) - 1; i >= 0; i-- {
		func() {
			defer func() { _ = recover() }()
			cl[i]()
		}()
	}
}

// ---------------------------------------------------------------------------------
// the world

const (
	c08WAB = 0 // Alice -> Bob   (channel AB)
	c08WBA = 1 // Bob   -> Alice (channel AB)
	c08WBC = 2 // Bob   -> Carol (channel BC)
	c08WCB = 3 // Carol -> Bob   (channel BC)

	c08Tick = 50 * time.Millisecond // == testBatchTimeout of the fixture
	// c08Flush: virtual time the explorer lets pass after every event so that the
	// nanosecond delays of ownRace elapse within the event's own step.
	c08Flush = time.Microsecond
)

var c08WireName = [4]string{"A>B", "B>A", "B>C", "C>B"}

// channel ends: 0 = Alice's AB, 1 = Bob's AB, 2 = Bob's BC, 3 = Carol's BC.
var c08EndName = [4]string{"A.ab", "B.ab", "B.bc", "C.bc"}

type c08Msg struct {
	msg  lnwire.Message
	step int    // event number during whose handling the message was captured
	desc string // kind + htlc id + payment index (canonical)
}

type c08PayState struct {
	c08Pay
	idx      int
	preimage lntypes.Preimage
	hash     lntypes.Hash
	htlcAmt  lnwire.MilliSatoshi // what the sender offers on the first hop
	fee      lnwire.MilliSatoshi // htlcAmt - Amt
	launched bool
	resolved bool // hold invoice resolution event done
	// results delivered to the sender (exactly one expected)
	results []string
	// forwarder-side bookkeeping (from the explorer's own wire log)
	bobSettledIn    bool // Bob sent update_fulfill on the incoming channel
	bobFailedIn     bool // Bob sent update_fail on the incoming channel
	preimageAtBob   bool // a fulfill carrying the preimage was delivered to Bob on the outgoing channel
	inID, outID     int64
	inSeen, outSeen bool
}

type c08World struct {
	t   *testing.T
	tb  *c08TB
	scn c08Scn

	hn       *hopNetwork
	servers  [3]*mockServer // alice bob carol
	decoders [3]*mockIteratorDecoder
	links    [4]*channelLink
	chans    [4]*lnwallet.LightningChannel
	restore  [4]func() (*lnwallet.LightningChannel, error)
	dbs      [4]*channeldb.DB
	pools    []*lnwallet.SigPool // the fixture's signature pools (never stopped by it)
	chanIDs  [2]lnwire.ChannelID // AB, BC
	startBal [4]lnwire.MilliSatoshi

	mu    sync.Mutex
	wires [4][]c08Msg
	step  int

	pays       []*c08PayState
	faultsUsed int
	devUsed    int
	frozen     int // wire held back by fz (-1: none)
	idle       int // consecutive idle ticks with empty wires
	events     int
	hist       []string
	t0         time.Time

	info      func(string)
	lastParts []string
	viols     []c08Viol
	obs       []string // observation after every event
	dead      string   // harness-level failure (fixture Fatal, panic)

	// OneDB / Crash
	cdb      *crashdb.DB // wrapper of Bob's single database (nil: fixture databases)
	noop     bool        // the last cb:k found at most k writes in its event: nothing new to explore
	draining bool        // inside the terminal drain
	// crash accounting (evidence): events crashed, and crashes at the largest enumerated k
	// (the event may perform more writes than were enumerated)
	crashes, crashSaturated int
	maxWrites               map[string]int64
}

type c08Viol struct {
	Sig  string `json:"sig"`
	What string `json:"what"`
}

func (w *c08World) logf(format string, args ...any) {
	if w.info != nil {
		w.info(fmt.Sprintf(format, args...))
	}
}

func (w *c08World) violate(sig, what string) {
	for _, v := range w.viols {
		if v.Sig == sig {
			return
		}
	}
	w.viols = append(w.viols, c08Viol{sig, what})
	w.logf("!! VIOLATION %s: %s", sig, what)
}

func c08Preimage(k int) lntypes.Preimage {
	return sha256.Sum256([]byte(fmt.Sprintf("verif-c08-preimage-%d", k)))
}

// newC08World builds the network. Must be called inside a synctest bubble.
func newC08World(t *testing.T, scn c08Scn, dir string, info func(string)) (w *c08World, err error) {
	w = &c08World{t: t, scn: scn, info: info, frozen: -1, maxWrites: map[string]int64{}}
	w.tb = &c08TB{T: t, dir: dir}
	defer func() {
		if v := recover(); v != nil {
			err = fmt.Errorf("panic while building the network: %v", v)
		}
	}()

	const chanAmt = btcutil.SatoshiPerBitcoin * 5
	_, _, scidAB, scidBC := genIDs()
	done := make(chan struct{})
	var a, b1, b2, c *testLightningChannel
	var cerr error
	// createTestChannel takes the concrete *testing.T (its DBs are closed by us).
	go func() {
		defer close(done)
		a, b1, cerr = createTestChannel(t, alicePrivKey, bobPrivKey, chanAmt, chanAmt, 0, 0, scidAB)
		if cerr != nil {
			return
		}
		bobBC := btcutil.Amount(chanAmt)
		if scn.BobBCSat > 0 {
			bobBC = btcutil.Amount(scn.BobBCSat)
		}
		b2, c, cerr = createTestChannel(t, bobPrivKey, carolPrivKey, bobBC, chanAmt, 0, 0, scidBC)
	}()
	<-done
	if cerr != nil {
		return nil, cerr
	}
	for i, tc := range []*testLightningChannel{a, b1, b2, c} {
		w.chans[i] = tc.channel
		w.restore[i] = tc.restore
		w.dbs[i] = testChannelStateDB(t, tc.channel).GetParentDB()
		if p := c08PoolOf(tc.channel); p != nil {
			w.pools = append(w.pools, p)
		}
	}
	w.chanIDs[0] = lnwire.NewChanIDFromOutPoint(w.chans[0].ChannelPoint())
	w.chanIDs[1] = lnwire.NewChanIDFromOutPoint(w.chans[2].ChannelPoint())
	if scn.OneDB || scn.Crash {
		if err := w.mergeBobDBs(); err != nil {
			return w, fmt.Errorf("one database for Bob: %v", err)
		}
	}

	ok := w.guard(func() {
		var opts []serverOption
		if scn.MailboxExpiryMs > 0 {
			// the fixture applies server options before it creates links (and with
			// them the mailboxes)
			opts = append(opts, func(_, bob, _ *mockServer) {
				if !c08SetMailboxExpiry(bob.htlcSwitch, time.Duration(scn.MailboxExpiryMs)*time.Millisecond) {
					w.tb.record("SKIP: cannot set the mailbox expiry on this tree")
				}
			})
		}
		opts = append(opts, func(_, bob, _ *mockServer) { w.applyBobCfg(bob.htlcSwitch) })
		n := newThreeHopNetwork(w.tb, w.chans[0], w.chans[1], w.chans[2], w.chans[3], testStartingHeight, opts...)
		w.hn = &n.hopNetwork
		w.servers = [3]*mockServer{n.aliceServer, n.bobServer, n.carolServer}
		w.decoders = [3]*mockIteratorDecoder{n.aliceOnionDecoder, n.bobOnionDecoder, n.carolOnionDecoder}
		w.links = [4]*channelLink{n.aliceChannelLink, n.firstBobChannelLink, n.secondBobChannelLink, n.carolChannelLink}
	})
	if !ok {
		return w, fmt.Errorf("fixture failed: %v", w.tb.failures())
	}
	for i := range w.servers {
		w.intercept(i)
	}
	for e := range w.links {
		w.ownRace(e)
		w.tuneLink(e)
	}
	for _, s := range w.servers {
		if err := s.Start(); err != nil {
			return w, err
		}
	}
	w.t0 = time.Now()
	synctest.Wait()
	// Initial handshake: every link has sent channel_reestablish; deliver them.
	for i := 0; i < 8 && w.pending() > 0; i++ {
		for wi := 0; wi < 4; wi++ {
			if len(w.wires[wi]) > 0 {
				w.deliver(wi)
				c08Quiesce()
			}
		}
	}
	// Half a tick of offset: explorer instants never coincide with the batch
	// tickers of the initial links (see DESIGN note in main_test.go).
	time.Sleep(c08Tick / 2)
	synctest.Wait()
	for i, l := range w.links {
		if !l.EligibleToForward() {
			return w, fmt.Errorf("link %s not eligible after the handshake", c08EndName[i])
		}
	}
	if w.pending() != 0 {
		return w, fmt.Errorf("wires not empty after the handshake: %s", w.wireString())
	}
	for i, ch := range w.chans {
		w.startBal[i] = ch.StateSnapshot().LocalBalance
	}
	for k, p := range scn.Pays {
		ps := &c08PayState{c08Pay: p, idx: k, preimage: c08Preimage(c08HashOwner(scn, k)), inID: -1, outID: -1}
		ps.hash = ps.preimage.Hash()
		w.pays = append(w.pays, ps)
	}
	w.step = 1
	w.logf("network up: AB chan=%x.. BC chan=%x.. start balances %v", w.chanIDs[0][:4], w.chanIDs[1][:4], w.startBal)
	return w, nil
}

// c08HashOwner: the payment whose preimage / hash / invoice payment k uses.
func c08HashOwner(scn c08Scn, k int) int {
	if h := scn.Pays[k].HashOf; h > 0 && h-1 < len(scn.Pays) && h-1 != k {
		return h - 1
	}
	return k
}

// mergeBobDBs moves Bob's ends of both channels into one fresh database behind the
// crashdb wrapper, before anything has happened on the channels. The fixture's restore
// closures are bound to the per-channel databases, so Bob's two ends get restore
// closures of their own (same signer key, same signature pool, same options).
func (w *c08World) mergeBobDBs() error {
	dir := w.tb.TempDir()
	backend, err := kvdb.GetBoltBackend(&kvdb.BoltBackendConfig{
		DBPath: dir, DBFileName: "channel.db", NoFreelistSync: true,
		AutoCompact: false, AutoCompactMinAge: kvdb.DefaultBoltAutoCompactMinAge,
		DBTimeout: kvdb.DefaultDBTimeout,
	})
	if err != nil {
		return err
	}
	w.cdb = crashdb.New(backend)
	db, err := channeldb.CreateWithBackend(w.cdb)
	if err != nil {
		return err
	}
	priv, pub := btcec.PrivKeyFromBytes(bobPrivKey)
	addr := &net.TCPAddr{IP: net.ParseIP("127.0.0.1"), Port: 18555}
	for _, e := range []int{1, 2} {
		st := w.chans[e].State()
		old := w.dbs[e]
		st.Db = db.ChannelStateDB()
		if err := st.SyncPending(addr, 1); err != nil {
			return fmt.Errorf("sync %s into the shared database: %v", c08EndName[e], err)
		}
		_ = old.Close()
		_ = os.RemoveAll(old.Path())
		w.dbs[e] = db
		op := w.chans[e].ChannelPoint()
		signer := input.NewMockSigner([]*btcec.PrivateKey{priv}, nil)
		pool := c08PoolOf(w.chans[e])
		if pool == nil {
			pool = lnwallet.NewSigPool(2, signer)
			if err := pool.Start(); err != nil {
				return err
			}
			w.pools = append(w.pools, pool)
		}
		name := c08EndName[e]
		w.restore[e] = func() (*lnwallet.LightningChannel, error) {
			stored, err := db.ChannelStateDB().FetchOpenChannels(pub)
			if err != nil {
				return nil, fmt.Errorf("fetch %s: %v", name, err)
			}
			for _, c := range stored {
				if c.FundingOutpoint == op {
					return lnwallet.NewLightningChannel(signer, c, pool,
						lnwallet.WithLeafStore(&lnwallet.MockAuxLeafStore{}),
						lnwallet.WithAuxSigner(lnwallet.NewDefaultAuxSignerMock(w.t)))
				}
			}
			return nil, fmt.Errorf("%s not found in the shared database", name)
		}
	}
	return nil
}

// applyBobCfg sets the non-default options of a scenario on (a new instance of) Bob's switch.
func (w *c08World) applyBobCfg(s *Switch) {
	if w.scn.RejectHTLC {
		s.cfg.RejectHTLC = true
	}
	if w.scn.FeeExposureSat > 0 {
		s.cfg.MaxFeeExposure = lnwire.NewMSatFromSatoshis(btcutil.Amount(w.scn.FeeExposureSat))
	}
}

// tuneLink applies per-link options and the onion faults of the batch to a freshly
// created link: payments of kind "malformed" carry an onion the *receiver* cannot
// parse, payments of kind "badonion" one that already *Bob* cannot parse. The link's
// decoder (the fixture's mock) is wrapped: for those payment hashes it reports the
// BADONION failure code the real sphinx processor reports for a corrupted packet, so
// the link answers with update_fail_malformed_htlc.
func (w *c08World) tuneLink(e int) {
	l := w.links[e]
	if (e == 1 || e == 2) && w.scn.LinkFeeExposureSat > 0 {
		l.cfg.MaxFeeExposure = lnwire.NewMSatFromSatoshis(btcutil.Amount(w.scn.LinkFeeExposureSat))
	}
	if pol := w.scn.Policy; (e == 1 || e == 2) && pol != nil {
		// through the link's own (locked) setter, the way the node applies a policy
		l.RLock()
		p := l.cfg.FwrdingPolicy
		l.RUnlock()
		p.InboundFee = models.InboundFee{Base: pol.InboundBase, Rate: pol.InboundRate}
		if pol.FeeRate > 0 {
			p.FeeRate = lnwire.MilliSatoshi(pol.FeeRate)
		}
		l.UpdateForwardingPolicy(p)
	}
	var bad []lntypes.Hash
	for k, p := range w.scn.Pays {
		at := -1
		switch {
		case p.Kind == "malformed" && p.Dir == "AC":
			at = 3
		case p.Kind == "malformed":
			at = 0
		case p.Kind == "badonion" && p.Dir == "AC":
			at = 1
		case p.Kind == "badonion":
			at = 2
		}
		if at == e {
			pre := c08Preimage(c08HashOwner(w.scn, k))
			bad = append(bad, pre.Hash())
		}
	}
	if len(bad) == 0 {
		return
	}
	orig := l.cfg.DecodeHopIterators
	l.cfg.DecodeHopIterators = func(id []byte, reqs []hop.DecodeHopIteratorRequest, reforward bool) ([]hop.DecodeHopIteratorResponse, error) {
		resps, err := orig(id, reqs, reforward)
		if err != nil {
			return resps, err
		}
		out := append([]hop.DecodeHopIteratorResponse{}, resps...) // the mock caches its slice
		for i := range reqs {
			for _, h := range bad {
				if i < len(out) && len(reqs[i].RHash) == 32 && lntypes.Hash(reqs[i].RHash) == h {
					out[i].HopIterator = nil
					out[i].FailCode = lnwire.CodeInvalidOnionHmac
				}
			}
		}
		return out, nil
	}
}

// c08RequiredFee evaluates the fee rule of the forwarding policy in unbounded integers
// (the rule of C09's statement, as documented in graph/db/models and BOLT 7): to forward
// `out` msat the incoming HTLC must carry at least
//
//	outFee = base + floor(out*rate/1e6)
//	inFee  = inboundBase + trunc0(inboundRate*(out+outFee)/1e6)   (a discount rounds toward zero)
//
// more than `out`. The inputs are the operator's configuration (the scenario's Policy over
// the fixture's global policy), never anything read back from the links under test.
func (w *c08World) c08RequiredFee(out int64) *big.Int {
	gp := w.hn.globalPolicy
	base, rate := new(big.Int).SetUint64(uint64(gp.BaseFee)), new(big.Int).SetUint64(uint64(gp.FeeRate))
	var inBase, inRate int64
	if pol := w.scn.Policy; pol != nil {
		inBase, inRate = int64(pol.InboundBase), int64(pol.InboundRate)
		if pol.FeeRate > 0 {
			rate = big.NewInt(pol.FeeRate)
		}
	}
	million := big.NewInt(1_000_000)
	o := big.NewInt(out)
	outFee := new(big.Int).Mul(o, rate)
	outFee.Div(outFee, million) // operands non-negative: floor
	outFee.Add(outFee, base)
	inFee := new(big.Int).Mul(big.NewInt(inRate), new(big.Int).Add(o, outFee))
	inFee.Quo(inFee, million) // Quo truncates toward zero
	inFee.Add(inFee, big.NewInt(inBase))
	return outFee.Add(outFee, inFee)
}

// feeCovers: the fee rule for an HTLC of `in` msat forwarded as `out` msat.
func (w *c08World) feeCovers(in, out int64) bool {
	d := new(big.Int).Sub(big.NewInt(in), big.NewInt(out))
	return d.Sign() >= 0 && d.Cmp(w.c08RequiredFee(out)) >= 0
}

// guard runs f on its own goroutine so that a fixture t.Fatal (runtime.Goexit in the
// wrapper) cannot unwind the explorer. It reports whether f ran to completion.
func (w *c08World) guard(f func()) bool {
	okc := make(chan bool, 1)
	go func() {
		ok := false
		defer func() {
			if v := recover(); v != nil {
				w.tb.record(fmt.Sprintf("panic: %v", v))
			}
			okc <- ok
		}()
		f()
		ok = true
	}()
	return <-okc && len(w.tb.failures()) == 0
}

func (w *c08World) intercept(si int) {
	s := w.servers[si]
	s.intersect(func(m lnwire.Message) (bool, error) {
		var cid lnwire.ChannelID
		switch msg := m.(type) {
		case *lnwire.UpdateAddHTLC:
			cid = msg.ChanID
		case *lnwire.UpdateFulfillHTLC:
			cid = msg.ChanID
		case *lnwire.UpdateFailHTLC:
			cid = msg.ChanID
		case *lnwire.UpdateFailMalformedHTLC:
			cid = msg.ChanID
		case *lnwire.RevokeAndAck:
			cid = msg.ChanID
		case *lnwire.CommitSig:
			cid = msg.ChanID
		case *lnwire.ChannelReestablish:
			cid = msg.ChanID
		case *lnwire.UpdateFee:
			cid = msg.ChanID
		case *lnwire.ChannelReady:
			// readHandler ignores it.
			return true, nil
		default:
			// let the fixture handle (and reject) anything else
			return false, nil
		}
		var wi int
		switch si {
		case 0:
			wi = c08WBA
		case 2:
			wi = c08WBC
		default:
			if cid == w.chanIDs[0] {
				wi = c08WAB
			} else {
				wi = c08WCB
			}
		}
		w.mu.Lock()
		w.wires[wi] = append(w.wires[wi], c08Msg{msg: m, step: w.step})
		w.mu.Unlock()
		return true, nil
	})
}

// deliverable counts the messages that are not on a frozen wire.
func (w *c08World) deliverable() int {
	w.mu.Lock()
	defer w.mu.Unlock()
	n := 0
	for i := range w.wires {
		if i != w.frozen {
			n += len(w.wires[i])
		}
	}
	return n
}

func (w *c08World) pending() int {
	w.mu.Lock()
	defer w.mu.Unlock()
	n := 0
	for i := range w.wires {
		n += len(w.wires[i])
	}
	return n
}

// payOfHash maps a payment hash to the scenario's payment index (-1: none).
func (w *c08World) payOfHash(h [32]byte) int {
	for _, p := range w.pays {
		if p.hash == lntypes.Hash(h) {
			return p.idx
		}
	}
	return -1
}

// Payments that share a payment hash (c08Pay.HashOf) are told apart the way the protocol
// does: an update_add_htlc by its amount (the two differ), a fulfill / fail by the id of
// the HTLC it removes. With pairwise distinct hashes these reduce to payOfHash.

func (w *c08World) sameHash(h [32]byte) []*c08PayState {
	var c []*c08PayState
	for _, p := range w.pays {
		if p.hash == lntypes.Hash(h) {
			c = append(c, p)
		}
	}
	return c
}

// payOfAdd: the payment an update_add_htlc (or a committed HTLC) of this hash and amount belongs to.
func (w *c08World) payOfAdd(hash [32]byte, amt lnwire.MilliSatoshi) int {
	c := w.sameHash(hash)
	if len(c) == 0 {
		return -1
	}
	if len(c) > 1 {
		for _, p := range c {
			if p.launched && (amt == p.htlcAmt || amt == lnwire.MilliSatoshi(p.Amt)) {
				return p.idx
			}
		}
	}
	return c[0].idx
}

// payOfRemoval: the payment whose HTLC #id a fulfill travelling on wire wi removes.
func (w *c08World) payOfRemoval(wi int, id uint64, hash [32]byte) int {
	c := w.sameHash(hash)
	if len(c) == 0 {
		return -1
	}
	if len(c) > 1 {
		for _, p := range c {
			_, _, backFrom, back := c08BobWires(p.Dir)
			if (wi == backFrom && p.outSeen && p.outID == int64(id)) || (wi == back && p.inSeen && p.inID == int64(id)) {
				return p.idx
			}
		}
	}
	return c[0].idx
}

// preimageKnown: a fulfill carrying the preimage of p's hash was delivered to Bob on p's
// outgoing channel (for p's own outgoing HTLC, or for another one with the same hash).
func (w *c08World) preimageKnown(p *c08PayState) bool {
	for _, q := range w.sameHash(p.hash) {
		if q.Dir == p.Dir && q.preimageAtBob {
			return true
		}
	}
	return false
}

// outgoing wire of Bob for a payment direction, and the incoming one.
func c08BobWires(dir string) (inFromSender, outToReceiver, backFromReceiver, backToSender int) {
	if dir == "AC" {
		return c08WAB, c08WBC, c08WCB, c08WBA
	}
	return c08WCB, c08WBA, c08WAB, c08WBC
}

// describe renders a message canonically (no signatures, no random ids).
func (w *c08World) describe(wi int, m lnwire.Message) string {
	switch msg := m.(type) {
	case *lnwire.UpdateAddHTLC:
		return fmt.Sprintf("add#%d(p%d,%d)", msg.ID, w.payOfAdd(msg.PaymentHash, msg.Amount), msg.Amount)
	case *lnwire.UpdateFulfillHTLC:
		return fmt.Sprintf("ful#%d(p%d)", msg.ID, w.payOfRemoval(wi, msg.ID, sha256.Sum256(msg.PaymentPreimage[:])))
	case *lnwire.UpdateFailHTLC:
		return fmt.Sprintf("fail#%d", msg.ID)
	case *lnwire.UpdateFailMalformedHTLC:
		return fmt.Sprintf("malf#%d", msg.ID)
	case *lnwire.RevokeAndAck:
		return "rev"
	case *lnwire.CommitSig:
		return fmt.Sprintf("sig(%d)", len(msg.HtlcSigs))
	case *lnwire.ChannelReestablish:
		return fmt.Sprintf("reest(%d,%d)", msg.NextLocalCommitHeight, msg.RemoteCommitTailHeight)
	case *lnwire.UpdateFee:
		return fmt.Sprintf("fee(%d)", msg.FeePerKw)
	}
	return fmt.Sprintf("%T", m)
}

func (w *c08World) wireString() string {
	w.mu.Lock()
	defer w.mu.Unlock()
	var b strings.Builder
	for wi := range w.wires {
		fmt.Fprintf(&b, "%s[", c08WireName[wi])
		for i, m := range w.wires[wi] {
			if i > 0 {
				b.WriteByte(' ')
			}
			b.WriteString(w.describe(wi, m.msg))
		}
		b.WriteString("] ")
	}
	return b.String()
}

// scanNew looks at the messages captured since the last event and feeds the
// forwarder-side bookkeeping of the oracle (what Bob sent upstream).
func (w *c08World) scanNew() {
	w.mu.Lock()
	type nm struct {
		wi int
		m  lnwire.Message
	}
	var fresh []nm
	for wi := range w.wires {
		for i := range w.wires[wi] {
			if w.wires[wi][i].desc == "" {
				w.wires[wi][i].desc = w.describe(wi, w.wires[wi][i].msg)
				fresh = append(fresh, nm{wi, w.wires[wi][i].msg})
			}
		}
	}
	w.mu.Unlock()
	for _, f := range fresh {
		w.onBobSends(f.wi, f.m)
	}
}

// onBobSends: the oracle's view of what the forwarder emits.
func (w *c08World) onBobSends(wi int, m lnwire.Message) {
	if wi != c08WBA && wi != c08WBC {
		return
	}
	switch msg := m.(type) {
	case *lnwire.UpdateAddHTLC:
		// Bob forwards (or retransmits) an add on the outgoing channel.
		k := w.payOfAdd(msg.PaymentHash, msg.Amount)
		if k < 0 {
			w.violate("forwarder/unknown-add", fmt.Sprintf("Bob sent an update_add_htlc on %s for a hash no payment of the batch uses", c08WireName[wi]))
			return
		}
		p := w.pays[k]
		_, out, _, _ := c08BobWires(p.Dir)
		if wi != out {
			w.violate("forwarder/add-wrong-channel", fmt.Sprintf("Bob sent the add of payment %d on %s", k, c08WireName[wi]))
			return
		}
		if p.outSeen && p.outID != int64(msg.ID) {
			w.violate(fmt.Sprintf("forwarder/forwarded-twice/dir=%s/kind=%s", p.Dir, p.Kind),
				fmt.Sprintf("Bob offered payment %d twice on the outgoing channel (htlc ids %d and %d)", k, p.outID, msg.ID))
		}
		p.outSeen, p.outID = true, int64(msg.ID)
		if p.bobFailedIn {
			w.violate(fmt.Sprintf("failback/forwarded-after-fail/dir=%s/kind=%s", p.Dir, p.Kind),
				fmt.Sprintf("Bob offers payment %d downstream after having failed the incoming HTLC", k))
		}
		if msg.Amount > p.htlcAmt-p.fee {
			w.violate(fmt.Sprintf("forwarder/overforward/dir=%s", p.Dir),
				fmt.Sprintf("Bob forwards %d msat for payment %d, more than incoming %d minus fee %d", msg.Amount, k, p.htlcAmt, p.fee))
		}
		// policy clause, accepting side: whatever path handed the add to the switch (live,
		// replayed from a forwarding package after a restart, retransmitted), an HTLC is
		// offered downstream only if the fee Bob keeps covers what his policy demands and
		// the amount is not below his minimum
		if !w.feeCovers(int64(p.htlcAmt), int64(msg.Amount)) {
			w.violate(fmt.Sprintf("policy/forwarded-underpaid/dir=%s/%s", p.Dir, w.class()),
				fmt.Sprintf("Bob offers payment %d downstream (incoming %d msat, outgoing %d msat: he keeps %d msat) although his policy demands a fee of %v msat for that amount",
					k, p.htlcAmt, msg.Amount, int64(p.htlcAmt)-int64(msg.Amount), w.c08RequiredFee(int64(msg.Amount))))
		}
		if msg.Amount < w.hn.globalPolicy.MinHTLCOut {
			w.violate(fmt.Sprintf("policy/forwarded-below-minimum/dir=%s/%s", p.Dir, w.class()),
				fmt.Sprintf("Bob offers payment %d downstream with %d msat, below his policy's minimum of %d msat", k, msg.Amount, w.hn.globalPolicy.MinHTLCOut))
		}
	case *lnwire.UpdateFulfillHTLC:
		h := sha256.Sum256(msg.PaymentPreimage[:])
		k := w.payOfRemoval(wi, msg.ID, h)
		if k < 0 {
			w.violate("provenance/unknown-preimage", fmt.Sprintf("Bob sent a fulfill on %s with a preimage of no payment", c08WireName[wi]))
			return
		}
		p := w.pays[k]
		_, _, _, back := c08BobWires(p.Dir)
		if wi != back {
			w.violate("provenance/wrong-channel", fmt.Sprintf("Bob sent the fulfill of payment %d on %s", k, c08WireName[wi]))
			return
		}
		if !w.preimageKnown(p) {
			w.violate(fmt.Sprintf("provenance/settled-without-outgoing-preimage/dir=%s/kind=%s", p.Dir, p.Kind),
				fmt.Sprintf("Bob settles the incoming HTLC of payment %d (id %d) although no update_fulfill_htlc carrying that preimage was ever delivered to him on the outgoing channel", k, msg.ID))
		}
		if p.bobFailedIn {
			w.violate(fmt.Sprintf("atomicity/settle-after-fail/dir=%s/kind=%s", p.Dir, p.Kind),
				fmt.Sprintf("Bob settles the incoming HTLC of payment %d after having failed it", k))
		}
		p.bobSettledIn = true
	case *lnwire.UpdateFailHTLC, *lnwire.UpdateFailMalformedHTLC:
		var id uint64
		if f, ok := msg.(*lnwire.UpdateFailHTLC); ok {
			id = f.ID
		} else {
			id = msg.(*lnwire.UpdateFailMalformedHTLC).ID
		}
		// which payment? the incoming add with that id on this channel
		var p *c08PayState
		for _, q := range w.pays {
			_, _, _, back := c08BobWires(q.Dir)
			if back == wi && q.inSeen && q.inID == int64(id) {
				p = q
			}
		}
		if p == nil {
			w.violate("failback/unknown-htlc", fmt.Sprintf("Bob fails htlc id %d on %s which no delivered add introduced", id, c08WireName[wi]))
			return
		}
		if p.bobSettledIn {
			w.violate(fmt.Sprintf("atomicity/fail-after-settle/dir=%s/kind=%s", p.Dir, p.Kind),
				fmt.Sprintf("Bob fails the incoming HTLC of payment %d after having settled it", p.idx))
		}
		if p.preimageAtBob {
			w.violate(fmt.Sprintf("atomicity/fail-although-preimage-known/dir=%s/kind=%s", p.Dir, p.Kind),
				fmt.Sprintf("Bob fails the incoming HTLC of payment %d although the outgoing HTLC was settled to him", p.idx))
		}
		p.bobFailedIn = true
		w.checkTwinGone(p, "at the moment Bob fails the incoming HTLC")
	}
}

// checkTwinGone: the outgoing HTLC of payment p must be absent from every unrevoked
// commitment of the outgoing channel (both parties' views).
func (w *c08World) checkTwinGone(p *c08PayState, when string) {
	ends := []int{2, 3} // B.bc, C.bc
	if p.Dir == "CA" {
		ends = []int{1, 0}
	}
	for _, e := range ends {
		cm := w.commitHtlcsAll(e)
		for _, name := range []string{"local", "remote", "pending"} {
			for _, h := range cm[name] {
				if h.RHash != [32]byte(p.hash) {
					continue
				}
				if len(w.sameHash(p.hash)) > 1 {
					// another payment shares the hash: the twin is the HTLC Bob
					// offered for *this* payment (by id; by amount if the offer
					// was never seen on the wire)
					if (p.outSeen && h.HtlcIndex != uint64(p.outID)) || (!p.outSeen && h.Amt != lnwire.MilliSatoshi(p.Amt)) {
						continue
					}
				}
				{
					w.violate(fmt.Sprintf("failback/outgoing-still-committed/dir=%s/kind=%s/where=%s.%s", p.Dir, p.Kind, c08EndName[e], name),
						fmt.Sprintf("payment %d: the incoming HTLC was failed back by Bob but the outgoing HTLC is present in %s's %s commitment (%s)", p.idx, c08EndName[e], name, when))
				}
			}
		}
	}
}

// commitHtlcs returns the HTLC sets of the unrevoked commitments channel end e knows:
// its own (local), the peer's (remote) and a signed-but-unrevoked next remote one.
func (w *c08World) commitHtlcs(e int) map[string][]channeldb.HTLC {
	st := w.chans[e].State()
	st.RLock()
	defer st.RUnlock()
	out := map[string][]channeldb.HTLC{
		"local":  append([]channeldb.HTLC{}, st.LocalCommitment.Htlcs...),
		"remote": append([]channeldb.HTLC{}, st.RemoteCommitment.Htlcs...),
	}
	return out
}

// commitHtlcsAll additionally includes a signed but not yet revoked next remote
// commitment ("pending"): the peer holds a valid signature for it.
func (w *c08World) commitHtlcsAll(e int) map[string][]channeldb.HTLC {
	out := w.commitHtlcs(e)
	if tip := w.pendingRemote(e); tip != nil {
		out["pending"] = append([]channeldb.HTLC{}, tip.Htlcs...)
	}
	return out
}

func (w *c08World) pendingRemote(e int) *channeldb.ChannelCommitment {
	st := w.chans[e].State()
	tip, err := st.RemoteCommitChainTip()
	if err != nil || tip == nil {
		return nil
	}
	return &tip.Commitment
}

// ---------------------------------------------------------------------------------
// events

// deliver hands the head of wire wi to the receiving link.
func (w *c08World) deliver(wi int) {
	w.mu.Lock()
	if len(w.wires[wi]) == 0 {
		w.mu.Unlock()
		return
	}
	m := w.wires[wi][0]
	w.wires[wi] = w.wires[wi][1:]
	w.mu.Unlock()
	dest := [4]int{1, 0, 2, 1}[wi]
	// the explorer's wire log: what Bob learns
	if dest == 1 {
		switch msg := m.msg.(type) {
		case *lnwire.UpdateFulfillHTLC:
			k := w.payOfRemoval(wi, msg.ID, sha256.Sum256(msg.PaymentPreimage[:]))
			if k >= 0 {
				_, _, backFrom, _ := c08BobWires(w.pays[k].Dir)
				if wi == backFrom {
					w.pays[k].preimageAtBob = true
				}
			}
		case *lnwire.UpdateAddHTLC:
			k := w.payOfAdd(msg.PaymentHash, msg.Amount)
			if k >= 0 {
				in, _, _, _ := c08BobWires(w.pays[k].Dir)
				if wi == in {
					w.pays[k].inSeen, w.pays[k].inID = true, int64(msg.ID)
				}
			}
		}
	}
	if err := w.servers[dest].readHandler(m.msg); err != nil {
		w.dead = fmt.Sprintf("readHandler: %v", err)
	}
}

// launch starts payment k.
func (w *c08World) launch(k int) {
	p := w.pays[k]
	p.launched = true
	var (
		sender, receiver *mockServer
		path             []*channelLink
	)
	if p.Dir == "AC" {
		sender, receiver = w.servers[0], w.servers[2]
		path = []*channelLink{w.links[1], w.links[3]}
	} else {
		sender, receiver = w.servers[2], w.servers[0]
		path = []*channelLink{w.links[2], w.links[0]}
	}
	amt := lnwire.MilliSatoshi(p.Amt)
	htlcAmt, timelock, hops := generateHops(amt, testStartingHeight, path...)
	if w.scn.Policy != nil {
		// the sender offers what Bob's configured policy demands, plus FeeDelta (the
		// onion still tells Bob to forward amt; the fixture's generateHops knows no
		// inbound fees)
		offer := new(big.Int).Add(big.NewInt(p.Amt), w.c08RequiredFee(p.Amt))
		offer.Add(offer, big.NewInt(p.FeeDelta))
		if !offer.IsInt64() || offer.Int64() < p.Amt {
			w.dead = fmt.Sprintf("payment %d: policy and fee_delta give the first-hop amount %v below the payment amount", k, offer)
			return
		}
		htlcAmt = lnwire.MilliSatoshi(offer.Int64())
	}
	p.htlcAmt, p.fee = htlcAmt, htlcAmt-amt
	firstHop := path[0].ShortChanID()
	blob, err := generateRoute(hops...)
	if err != nil {
		w.dead = "generateRoute: " + err.Error()
		return
	}
	var payAddr [32]byte
	copy(payAddr[:], []byte(fmt.Sprintf("verif-c08-payaddr-%d", k)))
	invAmt := amt
	if p.Kind == "wrongamt" {
		invAmt = amt + 1000
	}
	var pre *lntypes.Preimage
	if p.Kind == "valid" || p.Kind == "wrongamt" || p.Kind == "malformed" || p.Kind == "badonion" {
		pre = &p.preimage
	}
	invoice, htlc, _, err := generatePaymentWithPreimage(invAmt, htlcAmt, timelock, blob, pre, p.hash, payAddr)
	if err != nil {
		w.dead = "generatePayment: " + err.Error()
		return
	}
	// a payment that re-uses another payment's hash has no invoice of its own
	if p.Kind != "unknown" && c08HashOwner(w.scn, k) == k {
		if err := receiver.registry.AddInvoice(context.Background(), *invoice, p.hash); err != nil {
			w.dead = "AddInvoice: " + err.Error()
			return
		}
	}
	pid := uint64(k + 1)
	go func() {
		record := func(s string) {
			w.mu.Lock()
			p.results = append(p.results, s)
			w.mu.Unlock()
		}
		if err := sender.htlcSwitch.SendHTLC(firstHop, pid, htlc); err != nil {
			record("send-error:" + c08ErrClass(err))
			return
		}
		rc, err := sender.htlcSwitch.GetAttemptResult(pid, p.hash, newMockDeobfuscator())
		if err != nil {
			record("result-error:" + c08ErrClass(err))
			return
		}
		for res := range rc {
			switch {
			case res.Error != nil:
				record("failed:" + c08ErrClass(res.Error))
			case res.Preimage != [32]byte(p.preimage):
				record("success-with-wrong-preimage")
			default:
				record("success")
			}
			return
		}
		record("switch-shut-down")
	}()
}

func c08ErrClass(err error) string {
	var fe *ForwardingError
	if e, ok := err.(*ForwardingError); ok {
		fe = e
	}
	if fe != nil {
		return fmt.Sprintf("fwd@%d:%T", fe.FailureSourceIdx, fe.WireMessage())
	}
	if le, ok := err.(*LinkError); ok {
		return fmt.Sprintf("link:%T", le.WireMessage())
	}
	s := err.Error()
	if len(s) > 60 {
		s = s[:60]
	}
	return s
}

// ownRace resolves the one lnd-internal scheduler race whose outcome is visible at
// quiescent points. When a revocation locks in adds *and* settles/fails at once, the link
// first hands the adds to the switch synchronously (processRemoteAdds) and then the
// settles/fails from a freshly spawned goroutine (`go l.forwardBatch`,
// processRemoteSettleFails). If both are destined for the same other link they land in
// that link's mailbox, whose courier prefers responses over adds: whether the add is
// consumed before the response arrives is the Go scheduler's choice (observed: the
// response overtakes the add in ~90 % of replays under load, the add stays first in the
// rest), and it changes the order of Bob's messages on the other channel. Both orders are
// legal executions. The fixture routes both batches through the cfg.ForwardPackets closure
// it installs itself; wrapping that closure with a few nanoseconds of *virtual* delay for
// settle/fail batches makes every such add reach (and be consumed by) the other link
// before the response is handed over. This pins the order that the synchronous call
// sequence in the link suggests; the opposite order cannot be pinned from this seam and is
// not explored. No lnd source is touched and every explored execution is one the
// unmodified code can produce.
func (w *c08World) ownRace(e int) {
	if e != 1 && e != 2 {
		return // only the forwarder forwards
	}
	l := w.links[e]
	orig := l.cfg.ForwardPackets
	d := time.Duration(10*e) * time.Nanosecond
	l.cfg.ForwardPackets = func(q <-chan struct{}, replay bool, pkts ...*htlcPacket) error {
		if len(pkts) > 0 {
			if _, isAdd := pkts[0].htlc.(*lnwire.UpdateAddHTLC); !isAdd {
				time.Sleep(d)
			}
		}
		return orig(q, replay, pkts...)
	}
}

// quiesce: wait until every goroutine is durably blocked, let the ownRace delays
// elapse, wait again.
func c08Quiesce() {
	synctest.Wait()
	time.Sleep(c08Flush)
	synctest.Wait()
}

// align sleeps until the next explorer instant (t0 + tick/2 + k*tick).
func (w *c08World) align() {
	el := time.Since(w.t0) - c08Tick/2
	rem := c08Tick - el%c08Tick
	time.Sleep(rem)
	c08Quiesce()
}

// relink stops the link of channel end e (if it is still registered) and creates a
// fresh one from the persisted channel state, exactly like the fixture's restart tests.
func (w *c08World) stopLink(e int) {
	si := [4]int{0, 1, 1, 2}[e]
	cid := w.chanIDs[e/2]
	w.servers[si].htlcSwitch.RemoveLink(cid)
}

func (w *c08World) startLink(e int) error {
	si := [4]int{0, 1, 1, 2}[e]
	pi := [4]int{1, 0, 2, 1}[e]
	ch, err := w.restore[e]()
	if err != nil {
		return fmt.Errorf("restore %s: %v", c08EndName[e], err)
	}
	w.chans[e] = ch
	var l ChannelLink
	// A fresh decoder, as in the fixture's own restart tests (newThreeHopNetwork
	// builds new ones): the mock decoder caches *stateful* hop iterators per batch
	// id, which a re-processed forwarding package would find already consumed.
	w.decoders[si] = newMockIteratorDecoder()
	ok := w.guard(func() {
		l, err = w.hn.createChannelLink(w.servers[si], w.servers[pi], ch, w.decoders[si])
	})
	if !ok || err != nil {
		return fmt.Errorf("createChannelLink %s: %v %v", c08EndName[e], err, w.tb.failures())
	}
	w.links[e] = l.(*channelLink)
	w.ownRace(e)
	w.tuneLink(e)
	return nil
}

// cut: the connection of a pair drops: everything in flight is lost, both links are
// torn down and re-created from disk; they resynchronise with channel_reestablish.
func (w *c08World) cut(pair int) error {
	e0, e1 := 2*pair, 2*pair+1
	w.stopLink(e0)
	w.stopLink(e1)
	w.mu.Lock()
	w.wires[2*pair], w.wires[2*pair+1] = nil, nil
	w.mu.Unlock()
	if err := w.startLink(e0); err != nil {
		return err
	}
	if err := w.startLink(e1); err != nil {
		return err
	}
	w.align()
	// whatever the stopping links still emitted is lost as well; the new links'
	// messages are kept (they were captured after the wires were cleared).
	return nil
}

// restartBob: Bob's switch and both his links stop; a new switch is created on the
// same database and new links on the persisted channels; both peers reconnect.
func (w *c08World) restartBob() error {
	w.stopLink(0)
	w.stopLink(3)
	_ = w.servers[1].Stop()
	if w.cdb != nil {
		// a crashed database stays crashed until every goroutine of the old
		// instance has come to rest
		synctest.Wait()
		w.cdb.Disarm()
	}
	w.mu.Lock()
	for i := range w.wires {
		w.wires[i] = nil
	}
	w.mu.Unlock()
	var (
		nb  *mockServer
		err error
	)
	ok := w.guard(func() {
		nb, err = newMockServer(w.tb, "bob", testStartingHeight, w.dbs[1], w.hn.defaultDelta)
	})
	if !ok || err != nil {
		return fmt.Errorf("new bob server: %v %v", err, w.tb.failures())
	}
	w.servers[1] = nb
	if w.scn.MailboxExpiryMs > 0 {
		c08SetMailboxExpiry(nb.htlcSwitch, time.Duration(w.scn.MailboxExpiryMs)*time.Millisecond)
	}
	w.applyBobCfg(nb.htlcSwitch)
	w.intercept(1)
	for _, e := range []int{0, 1, 2, 3} {
		if err := w.startLink(e); err != nil {
			return err
		}
	}
	if err := nb.Start(); err != nil {
		return fmt.Errorf("bob start: %v", err)
	}
	w.align()
	return nil
}

// Enabled lists the enabled events; element 0 is the default continuation.
//
// Default: launch a payment that is due; else deliver the oldest message that is not
// on a frozen wire; else (nothing deliverable) tick until two ticks changed nothing;
// then unfreeze; then resolve an accepted hold invoice; else the execution is over.
func (w *c08World) Enabled() []string {
	if w.dead != "" || w.noop {
		return nil
	}
	// forced: payment launches at their scheduled event count
	for _, p := range w.pays {
		if !p.launched && w.events >= p.At {
			return []string{fmt.Sprintf("pay%d", p.idx)}
		}
	}
	used := w.devUsed + w.faultsUsed
	canDev := w.devUsed < w.scn.Dev && used < w.scn.total()
	canFault := w.faultsUsed < w.scn.Faults && used < w.scn.total()
	canReorder := canDev && !w.scn.OnlyFreeze && !w.scn.OnlyLong

	// deliverable heads, oldest first
	w.mu.Lock()
	type hd struct{ wi, step int }
	var heads []hd
	for wi := range w.wires {
		if len(w.wires[wi]) == 0 {
			continue
		}
		if wi == w.frozen {
			continue
		}
		heads = append(heads, hd{wi, w.wires[wi][0].step})
	}
	w.mu.Unlock()
	sort.SliceStable(heads, func(i, j int) bool {
		if heads[i].step != heads[j].step {
			return heads[i].step < heads[j].step
		}
		return heads[i].wi < heads[j].wi
	})
	unlaunched := false
	for _, p := range w.pays {
		if !p.launched {
			unlaunched = true
		}
	}
	var holds []string
	for _, p := range w.pays {
		if p.launched && !p.resolved && (p.Kind == "holdsettle" || p.Kind == "holdcancel") && w.invoiceState(p) == "accepted" {
			holds = append(holds, fmt.Sprintf("hold%d", p.idx))
		}
	}
	var def string
	var devs []string
	switch {
	case len(heads) > 0:
		def = "d:" + c08WireName[heads[0].wi]
		for _, h := range heads[1:] {
			if canReorder {
				devs = append(devs, "d:"+c08WireName[h.wi])
			}
		}
		if canReorder {
			devs = append(devs, "T")
			devs = append(devs, holds...)
		}
		if w.frozen >= 0 && canDev {
			devs = append(devs, "un:"+c08WireName[w.frozen])
		}
	case w.idle < 2 || unlaunched:
		def = "T"
		if canReorder {
			devs = append(devs, holds...)
		}
		if w.frozen >= 0 && canDev {
			devs = append(devs, "un:"+c08WireName[w.frozen])
		}
	case w.frozen >= 0:
		def = "un:" + c08WireName[w.frozen]
		if canReorder {
			devs = append(devs, holds...)
		}
	case len(holds) > 0:
		def = holds[0]
		if canReorder {
			devs = append(devs, holds[1:]...)
			devs = append(devs, "T")
		}
	default:
		return nil // terminal
	}
	if w.scn.LongIdle && canDev && !w.scn.OnlyFreeze && len(heads) == 0 && w.idle >= 2 {
		// the network is idle (an HTLC is held, a wire is slow or a payment is not
		// due yet): a long pause, past the 10/15 s tickers
		devs = append(devs, "L")
	}
	if w.scn.Freeze && canDev && w.frozen < 0 {
		w.mu.Lock()
		for wi := range w.wires {
			if len(w.wires[wi]) > 0 && c08In(w.scn.FreezeWires, c08WireName[wi]) {
				devs = append(devs, "fz:"+c08WireName[wi])
			}
		}
		w.mu.Unlock()
	}
	acts := append([]string{def}, devs...)
	if canFault {
		for _, f := range []string{"cut:AB", "cut:BC", "rb"} {
			if !c08In(w.scn.FaultKinds, f) {
				continue
			}
			if len(w.scn.FaultSeq) > 0 && (w.faultsUsed >= len(w.scn.FaultSeq) || w.scn.FaultSeq[w.faultsUsed] != f) {
				continue
			}
			if w.scn.FirstFaultPending && w.faultsUsed == 0 &&
				w.chans[1].NumPendingUpdates(lntypes.Local, lntypes.Remote)+
					w.chans[2].NumPendingUpdates(lntypes.Local, lntypes.Remote) == 0 {

				continue
			}
			acts = append(acts, f)
		}
		if w.scn.Crash && w.cdb != nil && c08In(w.scn.FaultKinds, "cb") &&
			(len(w.scn.FaultSeq) == 0 || (w.faultsUsed < len(w.scn.FaultSeq) && w.scn.FaultSeq[w.faultsUsed] == "cb")) {
			for k := 0; k < w.crashMax(def); k++ {
				acts = append(acts, fmt.Sprintf("cb:%d", k))
			}
		}
	}
	return acts
}

// eventKind: "T", or for a delivery the wire and the kind of its head message.
func (w *c08World) eventKind(a string) string {
	if !strings.HasPrefix(a, "d:") {
		if i := strings.IndexAny(a, "0123456789:"); i > 0 {
			return a[:i]
		}
		return a
	}
	w.mu.Lock()
	defer w.mu.Unlock()
	for wi, n := range c08WireName {
		if n == a[2:] && len(w.wires[wi]) > 0 {
			return fmt.Sprintf("%s:%T", a, w.wires[wi][0].msg)
		}
	}
	return a
}

// crashMax bounds the number of write transactions Bob performs while handling one
// event, by the kind of the event (measured maxima are reported in the evidence; a crash
// at the largest enumerated k that still found a further write is counted as
// crash_k_saturated, i.e. the bound was too small).
func (w *c08World) crashMax(def string) int {
	switch {
	case def == "T":
		// the batch ticker only makes a link sign if it has updates of its own pending
		if w.chans[1].NumPendingUpdates(lntypes.Local, lntypes.Remote)+
			w.chans[2].NumPendingUpdates(lntypes.Local, lntypes.Remote) == 0 {
			return 0
		}
		return 7
	case def == "d:A>B" || def == "d:C>B":
		wi := c08WAB
		if def == "d:C>B" {
			wi = c08WCB
		}
		w.mu.Lock()
		defer w.mu.Unlock()
		if len(w.wires[wi]) == 0 {
			return 0
		}
		// measured maxima (evidence bob_write_txs_per_event_max): rev 9, sig 4,
		// reestablish 4, fulfill 3 (the settle is passed upstream and signed for at
		// once), add / fail 0
		switch w.wires[wi][0].msg.(type) {
		case *lnwire.RevokeAndAck:
			return 12
		case *lnwire.CommitSig:
			return 6
		case *lnwire.ChannelReestablish:
			return 6
		case *lnwire.UpdateFulfillHTLC:
			return 5
		default:
			return 2
		}
	}
	return 0 // the event does not reach Bob
}

func (w *c08World) invoiceState(p *c08PayState) string {
	reg := w.servers[2].registry
	if p.Dir == "CA" {
		reg = w.servers[0].registry
	}
	inv, err := reg.LookupInvoice(context.Background(), p.hash)
	if err != nil {
		return "none"
	}
	switch inv.State {
	case invoices.ContractOpen:
		return "open"
	case invoices.ContractSettled:
		return fmt.Sprintf("settled(%d)", inv.AmtPaid)
	case invoices.ContractCanceled:
		return "canceled"
	case invoices.ContractAccepted:
		return "accepted"
	}
	return "?"
}

// Do performs one event, waits for quiescence, runs the per-step oracle.
func (w *c08World) Do(a string) (err error) {
	defer func() {
		if v := recover(); v != nil {
			w.violate("panic/"+c08Short(fmt.Sprint(v)), fmt.Sprintf("panic during event %q: %v", a, v))
			w.dead = "panic"
		}
	}()
	if a == "L" {
		// the terminal drain's long sleep (past the switch's 10/15 s tickers); recorded
		// in the history so that a replay reproduces the same virtual time line. With
		// LongIdle the same pause is also a schedule deviation in the middle of an execution.
		if w.deliverable() != 0 {
			return fmt.Errorf("event L with messages in flight")
		}
		if !w.draining && w.scn.LongIdle {
			for _, e := range w.Enabled() {
				if e == "L" {
					w.devUsed++
				}
			}
		}
		w.events++
		w.hist = append(w.hist, a)
		time.Sleep(20 * time.Second)
		c08Quiesce()
		w.scanNew()
		w.stepOracle()
		w.obs = append(w.obs, w.observe())
		if w.info != nil {
			w.logf("%3d %-7s @%-6v %s", w.events, a, time.Since(w.t0), w.wireString())
		}
		return nil
	}
	// classify the event against the budgets before performing it
	en := w.Enabled()
	allowed := false
	for _, e := range en {
		if e == a {
			allowed = true
		}
	}
	if !allowed {
		return fmt.Errorf("event %s is not enabled here (enabled: %v)", a, en)
	}
	isFault := strings.HasPrefix(a, "cut:") || a == "rb" || strings.HasPrefix(a, "cb:")
	if a != en[0] && !isFault {
		w.devUsed++
	}
	if w.cdb != nil && !isFault {
		// measured: Bob's write transactions per event kind (sizes the cb:k enumeration)
		kind, c0 := w.eventKind(a), w.cdb.Commits()
		defer func() {
			if n := w.cdb.Commits() - c0; n > w.maxWrites[kind] {
				w.maxWrites[kind] = n
			}
		}()
	}
	w.mu.Lock()
	w.step++
	w.mu.Unlock()
	w.events++
	w.hist = append(w.hist, a)
	before := ""
	switch {
	case strings.HasPrefix(a, "fz:") || strings.HasPrefix(a, "un:"):
		wi := -1
		for i, n := range c08WireName {
			if n == a[3:] {
				wi = i
			}
		}
		if wi < 0 {
			return fmt.Errorf("bad event %s", a)
		}
		if a[0] == 'f' {
			w.frozen = wi
		} else {
			w.frozen = -1
		}
	case strings.HasPrefix(a, "pay"):
		var k int
		fmt.Sscanf(a, "pay%d", &k)
		if k < 0 || k >= len(w.pays) || w.pays[k].launched {
			return fmt.Errorf("bad event %s", a)
		}
		w.launch(k)
	case strings.HasPrefix(a, "d:"):
		wi := -1
		for i, n := range c08WireName {
			if n == a[2:] {
				wi = i
			}
		}
		w.mu.Lock()
		empty := wi < 0 || len(w.wires[wi]) == 0
		w.mu.Unlock()
		if empty {
			return fmt.Errorf("bad event %s: wire empty", a)
		}
		w.deliver(wi)
	case a == "T":
		before = w.obsCore()
		time.Sleep(c08Tick)
	case strings.HasPrefix(a, "hold"):
		var k int
		fmt.Sscanf(a, "hold%d", &k)
		if k < 0 || k >= len(w.pays) {
			return fmt.Errorf("bad event %s", a)
		}
		p := w.pays[k]
		reg := w.servers[2].registry
		if p.Dir == "CA" {
			reg = w.servers[0].registry
		}
		p.resolved = true
		var herr error
		if p.Kind == "holdsettle" {
			herr = reg.SettleHodlInvoice(context.Background(), p.preimage)
		} else {
			herr = reg.CancelInvoice(context.Background(), p.hash)
		}
		if herr != nil {
			w.logf("   hold resolution returned: %v", herr)
		}
	case a == "cut:AB" || a == "cut:BC":
		w.faultsUsed++
		pair := 0
		if a == "cut:BC" {
			pair = 1
		}
		if w.frozen/2 == pair && w.frozen >= 0 {
			w.frozen = -1 // the slow connection is gone
		}
		if w.scn.SlowReest != "" && w.frozen < 0 {
			for wi, n := range c08WireName {
				if n == w.scn.SlowReest && wi/2 == pair {
					w.frozen = wi // ... and the new one is slow to come up
				}
			}
		}
		if err := w.cut(pair); err != nil {
			w.dead = err.Error()
		}
	case a == "rb":
		w.faultsUsed++
		w.frozen = w.slowRestartWire()
		if err := w.restartBob(); err != nil {
			w.dead = err.Error()
		}
	case strings.HasPrefix(a, "cb:"):
		// Bob dies right after the k-th durable write of the default continuation
		var k int
		fmt.Sscanf(a, "cb:%d", &k)
		if w.cdb == nil {
			return fmt.Errorf("event %s without a crash database", a)
		}
		w.faultsUsed++
		def := en[0]
		kmax, kind := w.crashMax(def), w.eventKind(def)
		c0, r0 := w.cdb.Commits(), w.cdb.Refused()
		w.cdb.CrashAfter(int64(k))
		switch {
		case strings.HasPrefix(def, "d:"):
			for i, n := range c08WireName {
				if n == def[2:] {
					w.deliver(i)
				}
			}
		case def == "T":
			time.Sleep(c08Tick)
		default:
			return fmt.Errorf("event %s on a default continuation %s that does not reach Bob", a, def)
		}
		c08Quiesce()
		if w.cdb.Refused() == r0 {
			// the event performed at most k writes: this is "def; rb", explored anyway
			w.cdb.Disarm()
			if n := w.cdb.Commits() - c0; n > w.maxWrites[kind] {
				w.maxWrites[kind] = n
			}
			w.noop = true
			return nil
		}
		w.crashes++
		if k == kmax-1 {
			w.crashSaturated++
		}
		w.logf("    %s: Bob's database refused %d write transaction(s) after the %d-th of %q; restarting Bob from disk", a, w.cdb.Refused()-r0, k, def)
		w.frozen = w.slowRestartWire()
		if err := w.restartBob(); err != nil {
			w.dead = err.Error()
		}
	default:
		return fmt.Errorf("unknown event %s", a)
	}
	c08Quiesce()
	w.scanNew()
	w.stepOracle()
	o := w.observe()
	if a == "T" && w.deliverable() == 0 && before == w.obsCore() {
		w.idle++
	} else {
		w.idle = 0
	}
	w.obs = append(w.obs, o)
	if w.info != nil {
		w.logf("%3d %-7s @%-6v %s", w.events, a, time.Since(w.t0), w.wireString())
		parts := w.obsParts()
		for i, p := range parts {
			if i >= len(w.lastParts) || w.lastParts[i] != p {
				w.logf("              %s", p)
			}
		}
		w.lastParts = parts
		if os.Getenv("VERIF_C08_PKGS") != "" {
			for _, e := range []int{1, 2} {
				pk, err := w.chans[e].LoadFwdPkgs()
				if err != nil {
					continue
				}
				for _, p := range pk {
					bits := func(f *channeldb.PkgFilter, n int) string {
						var b strings.Builder
						for i := 0; i < n; i++ {
							if f.Contains(uint16(i)) {
								b.WriteByte('1')
							} else {
								b.WriteByte('0')
							}
						}
						return b.String()
					}
					w.logf("              pkg %s h%d state=%d adds=%d ack=%s fwd=%s sf=%d sff=%s", c08EndName[e], p.Height, p.State, len(p.Adds),
						bits(p.AckFilter, len(p.Adds)), bits(p.FwdFilter, len(p.Adds)), len(p.SettleFails), bits(p.SettleFailFilter, len(p.SettleFails)))
				}
			}
		}
	}
	if f := w.tb.failures(); len(f) > 0 && w.dead == "" {
		w.dead = "fixture failure: " + strings.Join(f, "; ")
	}
	return nil
}

// slowRestartWire: the wire that is slow to come back after a restart of Bob (-1: none).
func (w *c08World) slowRestartWire() int {
	for wi, n := range c08WireName {
		if n == w.scn.SlowRestart && w.scn.SlowRestart != "" {
			return wi
		}
	}
	return -1
}

func c08Short(s string) string {
	if i := strings.IndexByte(s, '\n'); i >= 0 {
		s = s[:i]
	}
	if len(s) > 80 {
		s = s[:80]
	}
	return s
}

// stepOracle: clauses evaluated at every quiescent point.
func (w *c08World) stepOracle() {
	for _, p := range w.pays {
		if p.bobFailedIn {
			w.checkTwinGone(p, "after Bob failed the incoming HTLC")
		}
	}
	// policy clause, rejecting side: a policy failure must name a rule that is actually
	// violated. fee_insufficient, amount_below_minimum and incorrect_cltv_expiry are failures
	// of a FORWARDING hop (the final hop has codes of its own), and Bob is the only forwarder
	// (the fixture's mock deobfuscator reports source index 1 for every failure, so the
	// message type, not the index, identifies him).
	for _, p := range w.pays {
		for _, r := range w.resultsOf(p) {
			if !strings.HasPrefix(r, "failed:fwd@") {
				continue
			}
			switch {
			case strings.HasSuffix(r, "FailFeeInsufficient") && w.feeCovers(int64(p.htlcAmt), p.Amt):
				w.violate(fmt.Sprintf("policy/spurious-fee-insufficient/dir=%s/%s", p.Dir, w.class()),
					fmt.Sprintf("payment %d was failed by Bob with fee_insufficient although it offers %d msat for forwarding %d msat, i.e. a fee of %d msat, and his policy demands %v msat",
						p.idx, p.htlcAmt, p.Amt, int64(p.htlcAmt)-p.Amt, w.c08RequiredFee(p.Amt)))
			case strings.HasSuffix(r, "FailAmountBelowMinimum") && lnwire.MilliSatoshi(p.Amt) >= w.hn.globalPolicy.MinHTLCOut:
				w.violate(fmt.Sprintf("policy/spurious-amount-below-minimum/dir=%s/%s", p.Dir, w.class()),
					fmt.Sprintf("payment %d was failed by Bob with amount_below_minimum although %d msat is not below his minimum of %d msat", p.idx, p.Amt, w.hn.globalPolicy.MinHTLCOut))
			case strings.HasSuffix(r, "FailIncorrectCltvExpiry"):
				// every route of the batches is built with exactly Bob's time-lock delta
				w.violate(fmt.Sprintf("policy/spurious-incorrect-cltv/dir=%s/%s", p.Dir, w.class()),
					fmt.Sprintf("payment %d was failed by Bob with incorrect_cltv_expiry although its route leaves him exactly his time-lock delta", p.idx))
			}
		}
	}
	// no channel end may ever show a negative/overflowing balance or lose value
	for pair := 0; pair < 2; pair++ {
		for _, e := range []int{2 * pair, 2*pair + 1} {
			s := w.chans[e].StateSnapshot()
			var inHtlc lnwire.MilliSatoshi
			for _, h := range s.Htlcs {
				inHtlc += h.Amt
			}
			total := s.LocalBalance + s.RemoteBalance + inHtlc + lnwire.NewMSatFromSatoshis(s.CommitFee)
			if total != lnwire.NewMSatFromSatoshis(s.Capacity) {
				w.violate("conservation/commitment-total/"+c08EndName[e],
					fmt.Sprintf("%s: local %d + remote %d + htlcs %d + fee %d != capacity %d", c08EndName[e], s.LocalBalance, s.RemoteBalance, inHtlc, lnwire.NewMSatFromSatoshis(s.CommitFee), lnwire.NewMSatFromSatoshis(s.Capacity)))
			}
		}
	}
}

func (w *c08World) htlcStr(hs []channeldb.HTLC) string {
	var s []string
	for _, h := range hs {
		d := "out"
		if h.Incoming {
			d = "in"
		}
		s = append(s, fmt.Sprintf("%s#%d:p%d:%d", d, h.HtlcIndex, w.payOfAdd(h.RHash, h.Amt), h.Amt))
	}
	sort.Strings(s)
	return strings.Join(s, ",")
}

// obsParts: the canonical observation of the system proper (no explorer counters),
// one element per channel end, then circuits, payment results, invoices.
func (w *c08World) obsParts() []string {
	var parts []string
	for e, ch := range w.chans {
		var b strings.Builder
		st := ch.State()
		st.RLock()
		lc, rc := st.LocalCommitment, st.RemoteCommitment
		st.RUnlock()
		fmt.Fprintf(&b, "%s{L h%d %d/%d [%s] R h%d %d/%d [%s]", c08EndName[e],
			lc.CommitHeight, lc.LocalBalance, lc.RemoteBalance, w.htlcStr(lc.Htlcs),
			rc.CommitHeight, rc.LocalBalance, rc.RemoteBalance, w.htlcStr(rc.Htlcs))
		if tip := w.pendingRemote(e); tip != nil {
			fmt.Fprintf(&b, " T h%d [%s]", tip.CommitHeight, w.htlcStr(tip.Htlcs))
		}
		fmt.Fprintf(&b, " u%d/%d o%v}", ch.NumPendingUpdates(lntypes.Local, lntypes.Remote), ch.NumPendingUpdates(lntypes.Remote, lntypes.Local), ch.OweCommitment())
		parts = append(parts, b.String())
	}
	var b strings.Builder
	for i, s := range w.servers {
		fmt.Fprintf(&b, "%c.circ=%d/%d ", "ABC"[i], s.htlcSwitch.circuits.NumPending(), s.htlcSwitch.circuits.NumOpen())
	}
	parts = append(parts, strings.TrimSpace(b.String()))
	b.Reset()
	w.mu.Lock()
	for _, p := range w.pays {
		fmt.Fprintf(&b, "p%d=%v", p.idx, p.results)
		if !p.launched {
			b.WriteString("(unlaunched)")
		}
		b.WriteByte(' ')
	}
	w.mu.Unlock()
	for _, p := range w.pays {
		if p.launched {
			fmt.Fprintf(&b, "inv%d=%s ", p.idx, w.invoiceState(p))
		}
	}
	parts = append(parts, strings.TrimSpace(b.String()))
	return parts
}

func (w *c08World) obsCore() string { return strings.Join(w.obsParts(), " ") + " " }

func (w *c08World) observe() string {
	return w.obsCore() + "| " + w.wireString()
}

// Key: canonical state for de-duplication. See main_test.go for the argument.
func (w *c08World) Key() string {
	if w.noop {
		return "noop-crash" // a dead end by construction (see Do, cb:k)
	}
	var b strings.Builder
	b.WriteString(w.observe())
	// the kinds of the faults so far are part of the key: a restarted switch (fresh
	// mailboxes, circuit map re-read from disk) must never be merged with a mere link flap
	fmt.Fprintf(&b, "|%s d%d z%d i%d", w.faultList(), w.devUsed, w.frozen, w.idle)
	for _, p := range w.pays {
		fmt.Fprintf(&b, " %v%v%v%v%v", p.launched, p.resolved, p.bobSettledIn, p.bobFailedIn, p.preimageAtBob)
		if !p.launched {
			fmt.Fprintf(&b, "@%d", p.At-w.events)
		}
	}
	// forwarding-package progress (durable, decides what a restart re-forwards)
	for e, ch := range w.chans {
		pk, err := ch.LoadFwdPkgs()
		if err != nil {
			fmt.Fprintf(&b, " fp%d:err", e)
			continue
		}
		fmt.Fprintf(&b, " fp%d:", e)
		for _, p := range pk {
			// Completed packages are garbage: whether the link's background
			// garbage collector (fwdPkgGarbager, started with the link and then every
			// 15 s) has already deleted them is the scheduler's choice and has no
			// influence on what a restart re-forwards.
			if p.State == channeldb.FwdStateCompleted {
				continue
			}
			fmt.Fprintf(&b, "%d.%d.%d.%d.%v.%v,", p.Height, p.State, len(p.Adds), len(p.SettleFails), p.AckFilter.IsFull(), p.SettleFailFilter.IsFull())
		}
	}
	// batch-ticker phase of every link relative to the explorer's clock is fixed
	// (links are only ever created at explorer instants), so time is not part of the key.
	return b.String()
}

// Terminal: wires empty, nothing changes any more. Advance time past every timer
// and evaluate the conservation clauses.
func (w *c08World) Terminal() {
	if w.dead != "" || w.noop {
		return
	}
	w.draining = true
	defer func() { w.draining = false }()
	defer func() {
		if v := recover(); v != nil {
			w.violate("panic/"+c08Short(fmt.Sprint(v)), fmt.Sprintf("panic during terminal drain: %v", v))
			w.dead = "panic"
		}
	}()
	// drain: long sleeps (ack/log tickers, 15 s) with the default schedule
	stable := 0
	for i := 0; i < 400 && stable < 3; i++ {
		if w.pending() > 0 {
			stable = 0
			acts := w.Enabled()
			if len(acts) == 0 {
				break
			}
			w.Do(acts[0])
			continue
		}
		before := w.obsCore()
		if err := w.Do("L"); err != nil {
			break
		}
		if w.pending() == 0 && w.obsCore() == before {
			stable++
		} else {
			stable = 0
		}
	}
	w.stepOracle()
	fin := w.observe()
	w.obs = append(w.obs, "terminal: "+fin)
	w.logf("terminal   | %s", fin)
	if w.pending() > 0 {
		w.violate("terminal/not-quiescent", "messages keep flowing after 400 drain steps: "+w.wireString())
		return
	}
	w.terminalOracle()
}

func (w *c08World) terminalOracle() {
	cls := w.class()
	var (
		bobGain                int64
		aliceDelta, carolDelta int64
	)
	for _, p := range w.pays {
		res := w.resultsOf(p)
		if !p.launched {
			continue
		}
		if len(res) != 1 {
			w.violate(fmt.Sprintf("results/count=%d/dir=%s/kind=%s/%s", len(res), p.Dir, p.Kind, cls),
				fmt.Sprintf("payment %d has %d results at terminal quiescence: %v", p.idx, len(res), res))
			continue
		}
		inv := w.invoiceState(p)
		if res[0] == "success" {
			bobGain += int64(p.fee)
			if p.Dir == "AC" {
				aliceDelta -= int64(p.htlcAmt)
				carolDelta += p.Amt
			} else {
				carolDelta -= int64(p.htlcAmt)
				aliceDelta += p.Amt
			}
			okInv := inv == fmt.Sprintf("settled(%d)", p.Amt)
			for _, q := range w.sameHash(p.hash) {
				// one invoice serves every payment of the hash: it is settled with the
				// amount of whichever of them was accepted first
				if inv == fmt.Sprintf("settled(%d)", q.Amt) {
					okInv = true
				}
			}
			if !okInv {
				w.violate(fmt.Sprintf("invoice/success-but-%s/dir=%s/kind=%s", c08Short(inv), p.Dir, p.Kind),
					fmt.Sprintf("payment %d succeeded for the sender but the receiver's invoice is %s", p.idx, inv))
			}
		} else {
			settledByTwin := false
			for _, q := range w.sameHash(p.hash) {
				if r := w.resultsOf(q); q != p && len(r) == 1 && r[0] == "success" {
					settledByTwin = true
				}
			}
			if strings.HasPrefix(res[0], "success") || (strings.HasPrefix(inv, "settled") && !settledByTwin) {
				w.violate(fmt.Sprintf("invoice/failed-but-%s/dir=%s/kind=%s", c08Short(inv), p.Dir, p.Kind),
					fmt.Sprintf("payment %d: sender result %q but the receiver's invoice is %s", p.idx, res[0], inv))
			}
		}
	}
	bal := func(e int) (int64, int64) {
		s := w.chans[e].StateSnapshot()
		return int64(s.LocalBalance), int64(s.RemoteBalance)
	}
	var d [4]int64
	for e := range w.chans {
		l, _ := bal(e)
		d[e] = l - int64(w.startBal[e])
	}
	if d[1]+d[2] != bobGain {
		w.violate(fmt.Sprintf("conservation/forwarder/%s/%s", c08Sign(d[1]+d[2]-bobGain), cls),
			fmt.Sprintf("Bob's total changed by %d msat (AB %+d, BC %+d) but the fees of the succeeded payments are %d msat", d[1]+d[2], d[1], d[2], bobGain))
	}
	if d[0] != aliceDelta {
		w.violate(fmt.Sprintf("conservation/alice/%s/%s", c08Sign(d[0]-aliceDelta), cls),
			fmt.Sprintf("Alice's balance changed by %d msat, expected %d from the payment results", d[0], aliceDelta))
	}
	if d[3] != carolDelta {
		w.violate(fmt.Sprintf("conservation/carol/%s/%s", c08Sign(d[3]-carolDelta), cls),
			fmt.Sprintf("Carol's balance changed by %d msat, expected %d from the payment results", d[3], carolDelta))
	}
	// mirror: both ends of a channel agree
	for pair := 0; pair < 2; pair++ {
		l0, r0 := bal(2 * pair)
		l1, r1 := bal(2*pair + 1)
		if l0 != r1 || r0 != l1 {
			w.violate(fmt.Sprintf("conservation/mirror/pair=%d/%s", pair, cls),
				fmt.Sprintf("channel %d: ends disagree at quiescence: %d/%d vs %d/%d", pair, l0, r0, l1, r1))
		}
	}
	for e, ch := range w.chans {
		if n := len(ch.ActiveHtlcs()); n != 0 {
			w.violate(fmt.Sprintf("dangling/htlc/%s/%s", c08EndName[e], cls),
				fmt.Sprintf("%s still has %d active HTLCs at terminal quiescence", c08EndName[e], n))
		} else if cm := w.commitHtlcs(e); len(cm["local"])+len(cm["remote"]) != 0 {
			w.violate(fmt.Sprintf("dangling/htlc-one-sided/%s/%s", c08EndName[e], cls),
				fmt.Sprintf("%s still has HTLCs on a commitment at terminal quiescence: local [%s] remote [%s]", c08EndName[e], w.htlcStr(cm["local"]), w.htlcStr(cm["remote"])))
		} else if !ch.IsChannelClean() {
			w.violate(fmt.Sprintf("dangling/unclean/%s/%s", c08EndName[e], cls),
				fmt.Sprintf("%s is not clean at terminal quiescence (pending updates or unacked commitment)", c08EndName[e]))
		}
	}
	for i, s := range w.servers {
		np, no := s.htlcSwitch.circuits.NumPending(), s.htlcSwitch.circuits.NumOpen()
		if np != 0 || no != 0 {
			w.violate(fmt.Sprintf("dangling/circuit/%c/pending=%d/open=%d/%s", "ABC"[i], np, no, cls),
				fmt.Sprintf("%s's circuit map has %d pending / %d open circuits at terminal quiescence", s.name, np, no))
		}
	}
}

func c08Sign(v int64) string {
	if v < 0 {
		return "loss"
	}
	return "gain"
}

func (w *c08World) resultsOf(p *c08PayState) []string {
	w.mu.Lock()
	defer w.mu.Unlock()
	return append([]string{}, p.results...)
}

// class: a coarse description of the execution used in violation signatures and
// outcome accounting: which faults occurred.
func (w *c08World) class() string {
	var f []string
	for _, a := range w.hist {
		if strings.HasPrefix(a, "cut") || a == "rb" {
			f = append(f, a)
		} else if strings.HasPrefix(a, "cb:") {
			f = append(f, "cb") // the crash position is not part of the case class
		}
	}
	if len(f) == 0 {
		return "faults=none"
	}
	return "faults=" + strings.Join(f, "+")
}

// faultList: the faults so far with their positions (part of the canonical key: states
// reached through different crash points are never merged).
func (w *c08World) faultList() string {
	var f []string
	for _, a := range w.hist {
		if strings.HasPrefix(a, "cut") || a == "rb" || strings.HasPrefix(a, "cb:") {
			f = append(f, a)
		}
	}
	if len(f) == 0 {
		return "faults=none"
	}
	return "faults=" + strings.Join(f, "+")
}

// outcome: the outcome class of a finished execution.
func (w *c08World) outcome() string {
	var s []string
	for _, p := range w.pays {
		r := w.resultsOf(p)
		s = append(s, fmt.Sprintf("%s/%s/%d:%s", p.Dir, p.Kind, p.Amt, strings.Join(r, "+")))
	}
	return strings.Join(s, " ") + " " + w.class()
}

// Close tears the network down and releases every DB handle.
func (w *c08World) Close() {
	done := make(chan struct{})
	go func() {
		defer close(done)
		defer func() { _ = recover() }()
		var wg sync.WaitGroup
		for _, s := range w.servers {
			if s == nil {
				continue
			}
			wg.Add(1)
			go func() { defer wg.Done(); _ = s.Stop() }()
		}
		wg.Wait()
		for _, s := range w.servers {
			if s != nil && s.registry != nil && s.registry.registry != nil {
				_ = s.registry.registry.Stop()
			}
		}
		w.tb.runCleanups()
		for _, p := range w.pools {
			_ = p.Stop()
		}
		closed := map[*channeldb.DB]bool{}
		for _, db := range w.dbs {
			if db != nil && !closed[db] {
				closed[db] = true
				_ = db.Close()
				if p := db.Path(); p != "" {
					_ = os.RemoveAll(p)
				}
			}
		}
	}()
	<-done
	_ = os.RemoveAll(w.tb.dir)
}

// c08SetMailboxExpiry overwrites Switch.mailOrchestrator.cfg.expiry (all unexported) by
// reflection. It must run before the switch creates mailboxes. Returns false if the
// structure is not what it was when this harness was written.
func c08SetMailboxExpiry(s *Switch, d time.Duration) (ok bool) {
	defer func() {
		if recover() != nil {
			ok = false
		}
	}()
	f := reflect.ValueOf(s).Elem().FieldByName("mailOrchestrator")
	if !f.IsValid() || f.Kind() != reflect.Pointer || f.IsNil() {
		return false
	}
	cfg := f.Elem().FieldByName("cfg")
	if !cfg.IsValid() || cfg.Kind() != reflect.Pointer || cfg.IsNil() {
		return false
	}
	e := cfg.Elem().FieldByName("expiry")
	if !e.IsValid() || e.Type() != reflect.TypeOf(time.Duration(0)) {
		return false
	}
	*(*time.Duration)(unsafe.Pointer(e.UnsafeAddr())) = d
	return true
}

// c08PoolOf digs the signature pool out of a channel created by the fixture, which
// starts runtime.NumCPU() workers per channel and never stops them (64 leaked
// goroutines per network). Pure hygiene (memory of long-running workers): if the field
// is ever renamed this returns nil and the pools simply leak as they do in the repo's tests.
func c08PoolOf(ch *lnwallet.LightningChannel) (p *lnwallet.SigPool) {
	defer func() {
		if recover() != nil {
			p = nil
		}
	}()
	f := reflect.ValueOf(ch).Elem().FieldByName("sigPool")
	if !f.IsValid() || f.Kind() != reflect.Pointer {
		return nil
	}
	v := reflect.NewAt(f.Type(), unsafe.Pointer(f.UnsafeAddr())).Elem().Interface()
	p, _ = v.(*lnwallet.SigPool)
	return p
}
